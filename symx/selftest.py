"""self-validation of the proxies: every modelled operation is compared with the real Python
operation on exhaustively enumerated small concrete operands.  The operands are made symbolic
and pinned through solver assumptions, so the proxy code paths (solver-decided branches,
ite terms, model extraction) are the ones exercised."""
import itertools
import re
import time
import z3
from . import core
from .core import CTX, SStr, SInt, SReal, Tok, FakeRe, I

ALPH = "/\\aAé"


def _pin(name, s):
    chars = [z3.Int("%s.%d" % (name, i)) for i in range(len(s))]
    for c, ch in zip(chars, s):
        CTX.assume(c == ord(ch))
    return SStr(chars)


def _val(x):
    """concretise a proxy result under the (unique) model"""
    if isinstance(x, SStr):
        return x.concrete(CTX.model())
    if isinstance(x, SInt):
        return CTX.model().eval(x.e, model_completion=True).as_long()
    if isinstance(x, core.SBool):
        return bool(x)
    if isinstance(x, (list, tuple)):
        return type(x)(_val(i) for i in x)
    return x


def _strings(maxlen, alph=ALPH):
    for n in range(maxlen + 1):
        for t in itertools.product(alph, repeat=n):
            yield "".join(t)


UNARY = [
    ("rstrip('/')", lambda s: s.rstrip("/")),
    ("lstrip('/')", lambda s: s.lstrip("/")),
    ("strip('/')", lambda s: s.strip("/")),
    ("replace('\\\\','/')", lambda s: s.replace("\\", "/")),
    ("lower()", lambda s: s.lower()),
    ("rfind('/')", lambda s: s.rfind("/")),
    ("find('/')", lambda s: s.find("/")),
    ("len", lambda s: len(s)),
    ("bool", lambda s: bool(s)),
    ("split('/')", lambda s: s.split("/")),
    ("'/' in s", lambda s: "/" in s),
    ("'/'+s", lambda s: "/" + s),
    ("s+'/a'", lambda s: s + "/a"),
    ("'/'.join", None),   # placeholder, handled in binary
]
BINARY = [
    ("==", lambda a, b: a == b),
    ("!=", lambda a, b: a != b),
    ("startswith", lambda a, b: a.startswith(b)),
    ("endswith", lambda a, b: a.endswith(b)),
    ("+", lambda a, b: a + b),
    ("in", lambda a, b: b in a),
]


def _one(fn_sym, fn_real, expect_exc=(IndexError,)):
    """run fn_sym under a fresh path, compare with fn_real()"""
    CTX.start(())
    try:
        want = ("val", fn_real())
    except expect_exc as e:
        want = ("exc", type(e).__name__)
    try:
        got = ("val", _val(fn_sym()))
    except expect_exc as e:
        got = ("exc", type(e).__name__)
    if CTX.pending:
        return "forked on pinned operands"
    if got != want:
        return "got %r want %r" % (got, want)
    return None


def run(parts=None, maxlen=3):
    t0 = time.time()
    fails = []
    n = 0
    SStr.LOWER = {ord(c): ord(c.lower()) for c in ALPH + "É" if c.lower() != c}
    strs = list(_strings(maxlen))
    small = list(_strings(2))
    parts = parts or ("str",)
    if "str" in parts:
        for s in strs:
            for name, f in UNARY:
                if f is None:
                    continue
                n += 1
                r = _one(lambda: f(_pin("s", s)), lambda: f(s))
                if r:
                    fails.append("%s on %r: %s" % (name, s, r))
            # slicing / indexing
            for i in range(-4, 5):
                n += 1
                r = _one(lambda: _pin("s", s)[i], lambda: s[i])
                if r:
                    fails.append("index %d on %r: %s" % (i, s, r))
                for j in (None, -2, 0, 1, 3):
                    n += 1
                    r = _one(lambda: _pin("s", s)[i:j], lambda: s[i:j])
                    if r:
                        fails.append("slice %r:%r on %r: %s" % (i, j, s, r))
            n += 1
            r = _one(lambda: FakeRe.split("[/]+", _pin("s", s)), lambda: re.split("[/]+", s))
            if r:
                fails.append("re.split on %r: %s" % (s, r))
        for a in strs:
            for b in small:
                for name, f in BINARY:
                    n += 1
                    r = _one(lambda: f(_pin("a", a), _pin("b", b)), lambda: f(a, b))
                    if r:
                        fails.append("%s on %r,%r: %s" % (name, a, b, r))
                    if len(fails) > 20:
                        break
        for a in small:
            for b in small:
                n += 1
                r = _one(lambda: SStr.of("/").join([_pin("a", a), _pin("b", b), "x"]), lambda: "/".join([a, b, "x"]))
                if r:
                    fails.append("join on %r,%r: %s" % (a, b, r))
    if "num" in parts:
        for a in range(-3, 4):
            for b in range(-3, 4):
                for name, f in [("+", lambda x, y: x + y), ("-", lambda x, y: x - y), ("*", lambda x, y: x * y),
                                ("<", lambda x, y: x < y), ("<=", lambda x, y: x <= y), ("==", lambda x, y: x == y),
                                ("!=", lambda x, y: x != y), (">", lambda x, y: x > y), (">=", lambda x, y: x >= y)]:
                    n += 1

                    def sym():
                        x = z3.Int("x")
                        CTX.assume(x == a)
                        r = f(SInt(x), b)
                        return r
                    r = _one(sym, lambda: f(a, b))
                    if r:
                        fails.append("int %s on %r,%r: %s" % (name, a, b, r))
        from fractions import Fraction
        vals = [Fraction(0), Fraction(1, 2), Fraction(-3, 2), Fraction(2), Fraction(5, 4)]
        for a in vals:
            for b in vals:
                for name, f in [("+", lambda x, y: x + y), ("-", lambda x, y: x - y), ("*", lambda x, y: x * y),
                                ("<", lambda x, y: x < y), ("<=", lambda x, y: x <= y), ("==", lambda x, y: x == y),
                                (">", lambda x, y: x > y)]:
                    n += 1
                    CTX.start(())
                    x = z3.Real("x")
                    y = z3.Real("y")
                    CTX.assume(x == z3.Q(a.numerator, a.denominator))
                    CTX.assume(y == z3.Q(b.numerator, b.denominator))
                    got = f(SReal(x), SReal(y))
                    want = f(a, b)
                    if isinstance(got, core.SBool):
                        got = bool(got)
                    else:
                        v = CTX.model().eval(got.e, model_completion=True)
                        got = Fraction(v.numerator_as_long(), v.denominator_as_long())
                    if got != want:
                        fails.append("real %s on %r,%r: got %r want %r" % (name, a, b, got, want))
    if "tok" in parts:
        for a in range(3):
            for b in range(3):
                n += 1
                CTX.start(())
                x = z3.Int("x")
                y = z3.Int("y")
                CTX.assume(x == a)
                CTX.assume(y == b)
                if (Tok(x) == Tok(y)) != (a == b) or (Tok(x) != Tok(y)) != (a != b) or (Tok(x, "h") == Tok(y, "c")):
                    fails.append("tok eq %r %r" % (a, b))
    return {"cases": n, "failures": fails[:10], "seconds": round(time.time() - t0, 2), "parts": list(parts)}


if __name__ == "__main__":
    import sys
    import json
    parts = tuple(sys.argv[1].split(",")) if len(sys.argv) > 1 else ("str", "num", "tok")
    ml = int(sys.argv[2]) if len(sys.argv) > 2 else 3
    r = run(parts, ml)
    print("SELFTEST " + json.dumps(r))
    sys.exit(1 if r["failures"] else 0)
