"""symx core: re-execution depth-first symbolic executor over z3.

The code under test is the real Python code of /repo.  Symbolic values are proxy objects
(SBool, SInt, SReal, SStr, Tok); whenever Python needs a concrete truth value of a proxy
(``if``, ``while``, ``and``/``or``, ``not``) the proxy's ``__bool__`` asks the solver whether
each outcome is satisfiable under the current path condition.  Both satisfiable => the path
splits: this execution continues on the True side and the decision prefix of the sibling is
queued; it is explored later by re-running the harness from the start and replaying the
recorded decisions.  Exhausting the queue exhausts the path tree.
"""
import time
import zlib
from fractions import Fraction as _Fraction
import z3


class PathAbort(BaseException):
    """the current path condition is unsatisfiable (infeasible path)"""


class Inconclusive(BaseException):
    """solver said unknown / non-deterministic re-execution / unsupported operation"""


class Unsupported(Inconclusive):
    """an operation the proxies do not model was reached by a symbolic value"""


class StepBudget(BaseException):
    """harness-imposed step budget exceeded on this path"""


def I(v):
    return z3.IntVal(v)


class Ctx:
    def __init__(self):
        self.nq = 0          # solver queries
        self.tq = 0.0        # solver seconds
        self.npaths = 0
        self.solver_timeout_ms = 20000
        self.s = None
        self.prefix = ()
        self.active = False
        self.smt_dump = None  # list collecting exported validity queries (E2), or None
        self.start(())

    # -- per path ---------------------------------------------------------
    def start(self, prefix):
        self.s = z3.Solver()
        self.s.set("timeout", self.solver_timeout_ms)
        self.prefix = prefix       # tuple of (decision, condition checksum)
        self.idx = 0
        self.trace = []
        self.pending = []          # prefixes of unexplored siblings
        self.decided = {}          # condition text -> decision already implied by the path condition
        self.vars = []             # ordered (name, kind, payload) for model extraction
        self.n = 0
        self.notes = []
        self.claims = 0

    def fresh(self, p):
        self.n += 1
        return "%s#%d" % (p, self.n)

    def check(self, *a):
        t = time.perf_counter()
        r = self.s.check(*a)
        self.tq += time.perf_counter() - t
        self.nq += 1
        return r

    def assume(self, c):
        """add a constraint to the path condition; infeasible => PathAbort at next branch"""
        if isinstance(c, SBool):
            c = c.e
        if c is True:
            return
        if c is False:
            raise PathAbort()
        self.s.add(c)

    def feasible(self):
        r = self.check()
        if r == z3.unknown:
            raise Inconclusive("unknown on feasibility")
        return r == z3.sat

    def branch(self, cond):
        """decide a symbolic condition.  Terms are never passed through z3.simplify (its argument
        order depends on AST allocation history), so the structure of a condition is a
        deterministic function of the executed code: a per-path cache returns decisions already
        taken for the same term, and the term's structural hash is recorded with every decision so
        that a replayed prefix that meets a different condition is detected (non-determinism)."""
        if isinstance(cond, bool):
            return cond
        if z3.is_true(cond):
            return True
        if z3.is_false(cond):
            return False
        key = cond.get_id()          # hash-consed: equal structure <=> equal id while the term is alive
        hit = self.decided.get(key)
        if hit is not None:
            return hit[0]
        tg = cond.hash()             # z3's structural hash: a deterministic function of the term
        if self.idx < len(self.prefix):
            d, ptag = self.prefix[self.idx]
            if ptag != tg:
                raise Inconclusive("non-deterministic re-execution (branch %d differs)" % self.idx)
            self.idx += 1
            self.s.add(cond if d else z3.Not(cond))
            self.trace.append((d, tg))
            self.decided[key] = (d, cond)
            return d
        self.idx += 1
        rt = self.check(cond)
        if rt == z3.unknown:
            raise Inconclusive("solver unknown")
        if rt == z3.unsat:
            d = False
        else:
            rf = self.check(z3.Not(cond))
            if rf == z3.unknown:
                raise Inconclusive("solver unknown")
            if rf == z3.sat:
                self.pending.append(tuple(self.trace) + ((False, tg),))
            d = True
        self.s.add(cond if d else z3.Not(cond))
        self.trace.append((d, tg))
        self.decided[key] = (d, cond)
        return d

    def model(self):
        r = self.check()
        if r != z3.sat:
            raise Inconclusive("no model: %s" % r)
        return self.s.model()

    def valid(self, claim, label=""):
        """True iff claim holds on every value that follows this path (pc & not claim unsat)"""
        self.claims += 1
        if isinstance(claim, SBool):
            claim = claim.e
        if isinstance(claim, bool):
            return claim
        dump = None
        if self.smt_dump is not None and len(self.smt_dump) < 64:
            s2 = z3.Solver()
            s2.add(self.s.assertions())
            s2.add(z3.Not(claim))
            dump = [label, s2.to_smt2(), None]
            self.smt_dump.append(dump)
        r = self.check(z3.Not(claim))
        if dump is not None:
            dump[2] = str(r)
        if r == z3.unknown:
            raise Inconclusive("solver unknown on claim %s" % label)
        if r == z3.sat:
            self.s.add(z3.Not(claim))   # so that the extracted model is a counter-model
            return False
        return True

    # -- symbolic variable registration ------------------------------------
    def reg(self, name, kind, payload):
        self.vars.append((name, kind, payload))

    def model_values(self):
        m = self.model()
        out = []
        for name, kind, payload in self.vars:
            if kind == "int":
                out.append([name, "int", m.eval(payload, model_completion=True).as_long()])
            elif kind == "real":
                v = m.eval(payload, model_completion=True)
                out.append([name, "real", _real_str(v)])
            elif kind == "bool":
                out.append([name, "bool", bool(z3.is_true(m.eval(payload, model_completion=True)))])
            elif kind == "str":
                out.append([name, "str", "".join(chr(m.eval(c, model_completion=True).as_long()) for c in payload)])
            elif kind == "tok":
                out.append([name, "tok", m.eval(payload, model_completion=True).as_long()])
        return out


def _real_str(v):
    if z3.is_rational_value(v):
        return "%d/%d" % (v.numerator_as_long(), v.denominator_as_long())
    if z3.is_algebraic_value(v):
        return v.approx(20).as_fraction().__str__()
    return str(v)


CTX = Ctx()


def note(x):
    CTX.notes.append(x)


# ---------------------------------------------------------------------------------------
# proxies
# ---------------------------------------------------------------------------------------
class SBool:
    __slots__ = ("e",)

    def __init__(self, e):
        self.e = e

    def __bool__(self):
        return CTX.branch(self.e)

    __hash__ = None

    def __repr__(self):
        return "SBool(%s)" % self.e


def _iz(k):
    if isinstance(k, SInt):
        return k.e
    if isinstance(k, bool):
        return I(int(k))
    if isinstance(k, int):
        return I(k)
    raise TypeError(type(k))


class SInt:
    __slots__ = ("e", "lo", "hi")

    def __init__(self, e, lo=None, hi=None):
        self.e = e
        self.lo = lo
        self.hi = hi

    def _c(self, o, f):
        try:
            return SBool(f(self.e, _iz(o)))
        except TypeError:
            if isinstance(o, (SReal, float)):
                return SReal(z3.ToReal(self.e))._c(o, f)
            return NotImplemented

    def __eq__(self, o):
        r = self._c(o, lambda a, b: a == b)
        return False if r is NotImplemented else r

    def __ne__(self, o):
        r = self._c(o, lambda a, b: a != b)
        return True if r is NotImplemented else r

    def __lt__(self, o): return self._c(o, lambda a, b: a < b)
    def __le__(self, o): return self._c(o, lambda a, b: a <= b)
    def __gt__(self, o): return self._c(o, lambda a, b: a > b)
    def __ge__(self, o): return self._c(o, lambda a, b: a >= b)

    def _a(self, o, f):
        if isinstance(o, (SReal, float)):
            return f(SReal(z3.ToReal(self.e)), o)
        try:
            return SInt(f(self.e, _iz(o)))
        except TypeError:
            return NotImplemented

    def __add__(self, o): return self._a(o, lambda a, b: a + b)
    __radd__ = __add__
    def __sub__(self, o): return self._a(o, lambda a, b: a - b)
    def __rsub__(self, o): return self._a(o, lambda a, b: b - a)
    def __mul__(self, o): return self._a(o, lambda a, b: a * b)
    __rmul__ = __mul__
    def __neg__(self): return SInt(-self.e)
    def __truediv__(self, o): return SReal(z3.ToReal(self.e)) / o

    def __bool__(self):
        return CTX.branch(self.e != 0)

    def concretize(self):
        if z3.is_int_value(self.e):
            return self.e.as_long()
        if self.lo is not None and self.hi is not None:
            # bounded: try the candidates in order (independent of which model the solver picks)
            for v in range(self.lo, self.hi + 1):
                if CTX.branch(self.e == v):
                    return v
            raise PathAbort()
        while True:
            v = CTX.model().eval(self.e, model_completion=True).as_long()
            if CTX.branch(self.e == v):
                return v

    __index__ = concretize
    __int__ = concretize
    __hash__ = None

    def __repr__(self):
        return "SInt(%s)" % self.e


def _r(o):
    if isinstance(o, SReal):
        return o.e
    if isinstance(o, SInt):
        return z3.ToReal(o.e)
    if isinstance(o, bool):
        return z3.RealVal(int(o))
    if isinstance(o, int):
        return z3.RealVal(o)
    if isinstance(o, float):
        return z3.RealVal(repr(o))
    if isinstance(o, _Fraction):
        return z3.Q(o.numerator, o.denominator)
    raise TypeError(type(o))


class SReal:
    """a Python float modelled as a mathematical real"""
    __slots__ = ("e",)

    def __init__(self, e):
        self.e = e

    def _c(self, o, f):
        try:
            return SBool(f(self.e, _r(o)))
        except TypeError:
            return NotImplemented

    def __eq__(self, o):
        r = self._c(o, lambda a, b: a == b)
        return False if r is NotImplemented else r

    def __ne__(self, o):
        r = self._c(o, lambda a, b: a != b)
        return True if r is NotImplemented else r

    def __lt__(self, o): return self._c(o, lambda a, b: a < b)
    def __le__(self, o): return self._c(o, lambda a, b: a <= b)
    def __gt__(self, o): return self._c(o, lambda a, b: a > b)
    def __ge__(self, o): return self._c(o, lambda a, b: a >= b)

    def _a(self, o, f):
        try:
            return SReal(f(self.e, _r(o)))
        except TypeError:
            return NotImplemented

    def __add__(self, o): return self._a(o, lambda a, b: a + b)
    __radd__ = __add__
    def __sub__(self, o): return self._a(o, lambda a, b: a - b)
    def __rsub__(self, o): return self._a(o, lambda a, b: b - a)
    def __mul__(self, o): return self._a(o, lambda a, b: a * b)
    __rmul__ = __mul__
    def __truediv__(self, o): return self._a(o, lambda a, b: a / b)
    def __rtruediv__(self, o): return self._a(o, lambda a, b: b / a)
    def __neg__(self): return SReal(-self.e)

    def __pow__(self, o):
        # only concrete non-negative integer exponents (what runnable's backoff needs is mult*x)
        if isinstance(o, int) and o >= 0:
            e = z3.RealVal(1)
            for _ in range(o):
                e = e * self.e
            return SReal(e)
        raise Unsupported("SReal ** %r" % (o,))

    def __bool__(self):
        return CTX.branch(self.e != 0)

    __hash__ = None

    def __repr__(self):
        return "SReal(%s)" % self.e

    def __format__(self, spec):
        return "<SReal>"


def smin(a, b):
    """min() as the builtin computes it (returns first on ties) but forking through the solver"""
    return b if b < a else a


def smax(a, b):
    return b if b > a else a


def ceq(a, b):
    """a == b over char terms (Python int = literal, z3 Int term = symbolic), folded when literal"""
    if isinstance(a, int):
        if isinstance(b, int):
            return a == b
        a, b = b, a
    if a is b:
        return True
    k = (id(a), b if isinstance(b, int) else id(b))
    e = _EQ_CACHE.get(k)
    if e is None:
        if len(_EQ_CACHE) > 200000:
            _EQ_CACHE.clear()
        e = _EQ_CACHE[k] = (a == b, a, b)      # operands kept alive so that id() stays unique
    return e[0]


_EQ_CACHE = {}


def cand(xs):
    out = []
    for x in xs:
        if x is False:
            return False
        if x is not True:
            out.append(x)
    if not out:
        return True
    return out[0] if len(out) == 1 else z3.And(out)


def cor(xs):
    out = []
    for x in xs:
        if x is True:
            return True
        if x is not False:
            out.append(x)
    if not out:
        return False
    return out[0] if len(out) == 1 else z3.Or(out)


def cite(c, a, b):
    if c is True:
        return a
    if c is False:
        return b
    return z3.If(c, I(a) if isinstance(a, int) else a, I(b) if isinstance(b, int) else b)


# ---------------------------------------------------------------------------------------
# SStr: structure-concrete, character-symbolic string
# ---------------------------------------------------------------------------------------
_SYM_CACHE = {}
_LOWER_CACHE = {}
POISON = "￾"


def _lit_chars(x):
    return [ord(c) for c in x]


class SStr(str):
    """A str whose length is concrete on this path and whose characters are z3 Int terms.

    Symbolic strings fork on their length when created, so every later structural question
    (length, slicing, indexing) is decided without the solver and only comparisons of
    characters reach it.  The C-level value is a poison string of the right length: code
    that reads it through a C function instead of the overridden methods sees characters
    that occur in no literal of the code under test.
    """

    def __new__(cls, chars):
        chars = list(chars)
        if all(isinstance(c, int) for c in chars):
            lit = "".join(map(chr, chars))
            o = str.__new__(cls, lit)
            o.lit = lit
        else:
            o = str.__new__(cls, POISON * len(chars))
            o.lit = None
        o.chars = chars
        return o

    # -- construction -------------------------------------------------------
    @staticmethod
    def of(x):
        if isinstance(x, SStr):
            return x
        if not isinstance(x, str):
            raise TypeError("SStr.of(%r)" % type(x))
        return SStr(_lit_chars(x))

    @staticmethod
    def sym(name, maxlen, alphabet, minlen=0):
        """fresh symbolic string: length forks minlen..maxlen, chars range over alphabet"""
        ck = (name, maxlen, alphabet, minlen)
        ent = _SYM_CACHE.get(ck)
        if ent is None:
            ln = z3.Int(name + ".len")
            chars = [z3.Int("%s.%d" % (name, i)) for i in range(maxlen)]
            codes = sorted(set(ord(a) for a in alphabet))
            ent = _SYM_CACHE[ck] = (ln, z3.And(ln >= minlen, ln <= maxlen), chars,
                                    [z3.Or([c == k for k in codes]) for c in chars],
                                    [ln == v for v in range(maxlen + 1)])
        ln, lnc, chars, cons, lneq = ent
        CTX.s.add(lnc)
        n = None
        for v in range(minlen, maxlen + 1):
            if CTX.branch(lneq[v]):
                n = v
                break
        if n is None:
            raise PathAbort()
        for i in range(n):
            CTX.s.add(cons[i])
        CTX.reg(name, "str", chars[:n])
        return SStr(chars[:n])

    # -- basics ---------------------------------------------------------------
    def __len__(self):
        return len(self.chars)

    def __bool__(self):
        return len(self.chars) > 0

    def __hash__(self):
        if self.lit is not None:
            return hash(self.lit)
        raise Unsupported("hash of symbolic string")

    def _eq_term(self, o):
        if len(self.chars) != len(o.chars):
            return False
        return cand([ceq(a, b) for a, b in zip(self.chars, o.chars)])

    def __eq__(self, o):
        if not isinstance(o, str):
            return False
        return CTX.branch(self._eq_term(SStr.of(o)))

    def __ne__(self, o):
        return not self.__eq__(o)

    def __lt__(self, o):
        raise Unsupported("ordering of symbolic strings")

    __le__ = __gt__ = __ge__ = __lt__

    def __contains__(self, o):
        o = SStr.of(o)
        n, m = len(self.chars), len(o.chars)
        if m == 0:
            return True
        for k in range(n - m + 1):
            if CTX.branch(cand([ceq(self.chars[k + j], o.chars[j]) for j in range(m)])):
                return True
        return False

    def __iter__(self):
        for c in self.chars:
            yield SStr([c])

    def __getitem__(self, k):
        if isinstance(k, slice):
            k = slice(_conc(k.start), _conc(k.stop), _conc(k.step))
            return SStr(self.chars[k])
        k = _conc(k)
        n = len(self.chars)
        if k < -n or k >= n:
            raise IndexError("string index out of range")
        return SStr([self.chars[k]])

    def __add__(self, o):
        if not isinstance(o, str):
            return NotImplemented
        return SStr(self.chars + SStr.of(o).chars)

    def __radd__(self, o):
        if not isinstance(o, str):
            return NotImplemented
        return SStr(SStr.of(o).chars + self.chars)

    def __mul__(self, n):
        return SStr(self.chars * _conc(n))

    __rmul__ = __mul__

    def __mod__(self, o):
        raise Unsupported("% formatting of SStr")

    def join(self, parts):
        out = []
        for i, p in enumerate(parts):
            if i:
                out.extend(self.chars)
            out.extend(SStr.of(p).chars)
        return SStr(out)

    # -- methods used by the code under test ------------------------------------
    def _single(self, ch, what):
        if ch is None:
            raise Unsupported("%s() with default whitespace set" % what)
        ch = SStr.of(ch)
        if ch.lit is None:
            raise Unsupported("%s() with symbolic argument" % what)
        return [ord(c) for c in ch.lit]

    def _inset(self, c, codes):
        return cor([ceq(c, k) for k in codes])

    def rstrip(self, ch=None):
        codes = self._single(ch, "rstrip")
        n = len(self.chars)
        while n > 0 and CTX.branch(self._inset(self.chars[n - 1], codes)):
            n -= 1
        return SStr(self.chars[:n])

    def lstrip(self, ch=None):
        codes = self._single(ch, "lstrip")
        i = 0
        while i < len(self.chars) and CTX.branch(self._inset(self.chars[i], codes)):
            i += 1
        return SStr(self.chars[i:])

    def strip(self, ch=None):
        return self.rstrip(ch).lstrip(ch)

    def replace(self, a, b, count=-1):
        a = SStr.of(a)
        b = SStr.of(b)
        if count != -1 or a.lit is None or b.lit is None or len(a.lit) != 1:
            raise Unsupported("replace beyond single-literal-char pattern")
        ca = ord(a.lit)
        if len(b.lit) == 1:
            cb = ord(b.lit)
            return SStr([cite(ceq(c, ca), cb, c) for c in self.chars])
        out = []
        for c in self.chars:
            if CTX.branch(ceq(c, ca)):
                out.extend(b.chars)
            else:
                out.append(c)
        return SStr(out)

    LOWER = {}   # code point -> lower code point, set per harness alphabet (checked by selftest)

    def lower(self):
        def lw(c):
            if isinstance(c, int):
                return ord(chr(c).lower()) if len(chr(c).lower()) == 1 else None
            k = c.get_id()
            e = _LOWER_CACHE.get(k)
            if e is None:
                e = c
                for u, l in SStr.LOWER.items():
                    e = z3.If(c == u, I(l), e)
                _LOWER_CACHE[k] = (e, c)
                return e
            return e[0]
        out = [lw(c) for c in self.chars]
        if any(o is None for o in out):
            raise Unsupported("lower() changing length")
        return SStr(out)

    def upper(self):
        raise Unsupported("upper()")

    def startswith(self, p, *a):
        if a:
            raise Unsupported("startswith with offsets")
        if isinstance(p, tuple):
            return any(self.startswith(q) for q in p)
        p = SStr.of(p)
        if len(p.chars) > len(self.chars):
            return False
        if not p.chars:
            return True
        return CTX.branch(cand([ceq(a, b) for a, b in zip(self.chars, p.chars)]))

    def endswith(self, p, *a):
        if a:
            raise Unsupported("endswith with offsets")
        if isinstance(p, tuple):
            return any(self.endswith(q) for q in p)
        p = SStr.of(p)
        m = len(p.chars)
        if m > len(self.chars):
            return False
        if not m:
            return True
        return CTX.branch(cand([ceq(a, b) for a, b in zip(self.chars[len(self.chars) - m:], p.chars)]))

    def rfind(self, ch, *a):
        if a:
            raise Unsupported("rfind with offsets")
        ch = SStr.of(ch)
        if len(ch.chars) != 1:
            raise Unsupported("rfind of multi-char pattern")
        for j in reversed(range(len(self.chars))):
            if CTX.branch(ceq(self.chars[j], ch.chars[0])):
                return j
        return -1

    def find(self, ch, *a):
        if a:
            raise Unsupported("find with offsets")
        ch = SStr.of(ch)
        if len(ch.chars) != 1:
            raise Unsupported("find of multi-char pattern")
        for j in range(len(self.chars)):
            if CTX.branch(ceq(self.chars[j], ch.chars[0])):
                return j
        return -1

    def split(self, sep=None, maxsplit=-1):
        if sep is None or maxsplit != -1:
            raise Unsupported("split() default/maxsplit")
        sep = SStr.of(sep)
        if len(sep.chars) != 1:
            raise Unsupported("split on multi-char")
        parts, cur = [], []
        for c in self.chars:
            if CTX.branch(ceq(c, sep.chars[0])):
                parts.append(SStr(cur))
                cur = []
            else:
                cur.append(c)
        parts.append(SStr(cur))
        return parts

    def split_runs(self, code):
        """re.split('[c]+', s)"""
        parts, cur, in_sep = [], [], False
        for c in self.chars:
            if CTX.branch(ceq(c, code)):
                if not in_sep:
                    parts.append(SStr(cur))
                    cur = []
                    in_sep = True
            else:
                cur.append(c)
                in_sep = False
        parts.append(SStr(cur))
        return parts

    def encode(self, *a, **k):
        if self.lit is not None:
            return self.lit.encode(*a, **k)
        raise Unsupported("encode of symbolic string")

    def concrete(self, model):
        return "".join(chr(c if isinstance(c, int) else model.eval(c, model_completion=True).as_long()) for c in self.chars)

    def __repr__(self):
        return "SStr(%r)" % (self.lit,) if self.lit is not None else "SStr(<%d sym>)" % len(self.chars)

    def __str__(self):
        if self.lit is not None:
            return self.lit
        return "<sym>"

    def __format__(self, spec):
        if self.lit is not None:
            return format(self.lit, spec)
        return "<sym>"


for _m in ("capitalize", "casefold", "center", "count", "expandtabs", "format", "format_map", "index",
           "isalnum", "isalpha", "isascii", "isdecimal", "isdigit", "isidentifier", "islower", "isnumeric",
           "isprintable", "isspace", "istitle", "isupper", "ljust", "partition", "removeprefix",
           "removesuffix", "rindex", "rjust", "rpartition", "rsplit", "splitlines", "swapcase", "title",
           "translate", "zfill"):
    def _mk(name):
        def f(self, *a, **k):
            if self.lit is not None:
                return getattr(str, name)(self.lit, *a, **k)
            raise Unsupported("str.%s on symbolic string" % name)
        return f
    setattr(SStr, _m, _mk(_m))


def _conc(k):
    if k is None or isinstance(k, int):
        return k
    if isinstance(k, SInt):
        return k.concretize()
    raise TypeError(type(k))


class FakeRe:
    """the only pattern shape the code under test builds: '[c]+' with one literal char"""

    @staticmethod
    def escape(s):
        return s

    @staticmethod
    def split(pat, s):
        if not (isinstance(pat, str) and len(pat) == 4 and pat[0] == "[" and pat[2:] == "]+"):
            raise Unsupported("re.split pattern %r" % (pat,))
        return SStr.of(s).split_runs(ord(pat[1]))


# ---------------------------------------------------------------------------------------
# Tok: opaque value with solver-decided equality
# ---------------------------------------------------------------------------------------
class Tok:
    """opaque bytes-like value; only equality is observable, decided by the solver.

    kind separates domains (content 'c', hash-of-content 'h'); a derived token keeps the
    term of its source so that hash(a) == hash(b) iff a == b (injective hash stub).
    """

    def __init__(self, e, kind="c", label=None):
        self.e = e
        self.kind = kind
        self.label = label

    @staticmethod
    def fresh(name, kind="c"):
        v = z3.Int(name)
        CTX.reg(name, "tok", v)
        return Tok(v, kind, name)

    @staticmethod
    def const(n, kind="c", label=None):
        return Tok(I(n), kind, label)

    def __eq__(self, o):
        if isinstance(o, Tok):
            if o.kind != self.kind:
                return False
            return CTX.branch(self.e == o.e)
        return False

    def __ne__(self, o):
        return not self.__eq__(o)

    def __hash__(self):
        raise Unsupported("Tok is unhashable")

    def __bool__(self):
        return True

    def derive(self, kind):
        return Tok(self.e, kind, self.label)

    def __repr__(self):
        return "Tok<%s:%s>" % (self.kind, self.label if self.label is not None else self.e)


# ---------------------------------------------------------------------------------------
# exploration
# ---------------------------------------------------------------------------------------
def sym_int(name, lo, hi):
    v = z3.Int(CTX.fresh(name))
    CTX.assume(z3.And(v >= lo, v <= hi))
    CTX.reg(str(v), "int", v)
    return SInt(v, lo, hi)


def sym_bool(name):
    v = z3.Bool(CTX.fresh(name))
    CTX.reg(str(v), "bool", v)
    return SBool(v)


def sym_real(name, lo=None, hi=None):
    v = z3.Real(CTX.fresh(name))
    if lo is not None:
        CTX.assume(v >= lo)
    if hi is not None:
        CTX.assume(v <= hi)
    CTX.reg(str(v), "real", v)
    return SReal(v)


def run_path(fn, prefix):
    """run fn once under the given decision prefix. returns (record, pending)"""
    CTX.start(tuple(tuple(x) for x in prefix))
    CTX.active = True
    CTX.npaths += 1
    rec = {}
    try:
        res = fn()
        rec.update(res if isinstance(res, dict) else {"ok": bool(res)})
        rec["status"] = "ok" if rec.get("ok", True) else "fail"
        if rec["status"] == "fail":
            rec["model"] = CTX.model_values()
    except PathAbort:
        rec["status"] = "abort"
    except StepBudget as e:
        rec["status"] = "budget"
        rec["why"] = str(e)
        rec["model"] = _try_model()
    except Inconclusive as e:
        rec["status"] = "inconclusive"
        rec["why"] = "%s: %s" % (type(e).__name__, e)
    except RecursionError as e:
        rec["status"] = "exc"
        rec["exc"] = "RecursionError"
        rec["why"] = "RecursionError"
        rec["model"] = _try_model()
    except Exception as e:      # an exception escaping the harness = escaping the code under test
        import traceback
        rec["status"] = "exc"
        rec["exc"] = type(e).__name__
        rec["why"] = traceback.format_exc()[-1800:]
        rec["model"] = _try_model()
    finally:
        CTX.active = False
    rec["notes"] = CTX.notes
    rec["depth"] = len(CTX.trace)
    return rec, CTX.pending


def _try_model():
    try:
        return CTX.model_values()
    except BaseException:
        return None


def explore(fn, root=(), max_paths=None, max_seconds=None):
    """depth-first exploration of the subtree under the decision prefix root.

    yields ('leaf', rec) per completed path; returns remaining work through the generator's
    'rest' record when a budget stops it early."""
    work = [root]
    t0 = time.time()
    n = 0
    while work:
        if (max_paths is not None and n >= max_paths) or (max_seconds is not None and time.time() - t0 > max_seconds):
            break
        prefix = work.pop()
        rec, pending = run_path(fn, prefix)
        work.extend(pending)
        n += 1
        yield "leaf", rec
    yield "rest", work
