"""C09 probe: SqliteStorage methods over a symbolic relational stub"""
import sys, logging, collections, re
sys.path.insert(0, '/repo'); sys.path.insert(0, '/verif/design_probes')
logging.disable(logging.CRITICAL)
import z3, sx
from sx import CTX, SInt, SBool
from tok import Tok
from cloudsync.sync.sqlite_storage import SqliteStorage

def zv(x):
    if isinstance(x, (SInt, Tok)): return x.e
    if isinstance(x, int): return z3.IntVal(x)
    raise TypeError(type(x))
class Row:
    def __init__(self, i):
        self.present = z3.Bool("present%d" % i); self.id = z3.Int("id%d" % i); self.tag = z3.Int("tag%d" % i); self.blob = z3.Int("blob%d" % i)
        for n in ("present", "id", "tag", "blob"): CTX.vars["%s%d" % (n, i)] = getattr(self, n)
class Cursor:
    def __init__(self, rows=None, rowcount=-1, lastrowid=None): self._rows = rows or []; self.rowcount = rowcount; self.lastrowid = lastrowid
    def fetchall(self): return self._rows
class SymDB:
    COLS = {"id": lambda r: r.id, "tag": lambda r: r.tag, "serialization": lambda r: r.blob}
    WRAP = {"id": lambda e: SInt(e), "tag": lambda e: Tok(e, "tag"), "serialization": lambda e: Tok(e, "c")}
    def __init__(self, nrows):
        self.rows = [Row(i) for i in range(nrows)]
        for i, a in enumerate(self.rows):
            CTX.assume(z3.And(a.tag >= 0, a.tag <= 1, a.id >= 1))
            for b in self.rows[:i]:
                CTX.assume(z3.Implies(z3.And(a.present, b.present), a.id != b.id))
        self.inserted = []
    def where(self, clause, params):
        """clause: 'col = ? AND col = ?' (AND/OR, left-assoc); returns fn(row)->z3 bool, consumed params"""
        toks = re.split(r"\s+(and|or)\s+", clause.strip(), flags=re.I)
        conds = []; ops = []
        for t in toks:
            if t.lower() in ("and", "or"): ops.append(t.lower()); continue
            m = re.fullmatch(r"(\w+)\s*(=|!=|<>)\s*\?", t.strip()); assert m, t
            conds.append((m.group(1), m.group(2), params.pop(0)))
        def f(r):
            e = None
            for k, (col, op, p) in enumerate(conds):
                c = self.COLS[col](r) == zv(p)
                if op != "=": c = z3.Not(c)
                e = c if e is None else (z3.And(e, c) if ops[k - 1] == "and" else z3.Or(e, c))
            return e
        return f
    def live(self):  # all rows incl. inserted
        return [(r.present, r) for r in self.rows] + [(z3.BoolVal(True), r) for r in self.inserted]
    def execute(self, sql, parameters=()):
        params = list(parameters); s = " ".join(sql.split())
        if re.match(r"(?i)pragma|create ", s): return Cursor()
        m = re.fullmatch(r"(?i)insert into cloud \(tag, serialization\) values \(\?, \?\)", s)
        if m:
            class NR: pass
            r = NR(); r.id = z3.Int("newid%d" % len(self.inserted)); CTX.vars[str(r.id)] = r.id
            r.tag = zv(params[0]); r.blob = zv(params[1]); r.present = z3.BoolVal(True)
            for p, o in self.live(): CTX.assume(z3.Implies(p, r.id != o.id))
            CTX.assume(r.id >= 1)
            self.inserted.append(r); return Cursor(lastrowid=SInt(r.id), rowcount=1)
        m = re.fullmatch(r"(?i)update cloud set serialization = \? where (.*)", s)
        if m:
            newblob = zv(params.pop(0)); f = self.where(m.group(1), params); n = 0
            for p, r in self.live():
                if CTX.branch(z3.And(p, f(r))): r.blob = newblob; n += 1
            return Cursor(rowcount=n)
        m = re.fullmatch(r"(?i)delete from cloud where (.*)", s)
        if m:
            f = self.where(m.group(1), params); n = 0
            for p, r in self.live():
                if CTX.branch(z3.And(p, f(r))): r.present = z3.BoolVal(False); n += 1
            return Cursor(rowcount=n)
        m = re.fullmatch(r"(?i)select (.*?) from cloud(?: where (.*))?", s)
        if m:
            cols = [c.strip() for c in m.group(1).split(",")]
            f = self.where(m.group(2), params) if m.group(2) else (lambda r: z3.BoolVal(True))
            out = []
            for p, r in self.live():
                if CTX.branch(z3.And(p, f(r))): out.append(tuple(self.WRAP[c](self.COLS[c](r)) for c in cols))
            return Cursor(rows=out)
        raise NotImplementedError(s)
    def close(self): pass
def mkstore(nrows):
    st = SqliteStorage.__new__(SqliteStorage)
    from threading import Lock
    st._mutex = Lock(); st._filename = ":sym:"; st.db = SymDB(nrows)
    return st
def model_get(db, tag, eid):
    """z3: (found, blob) of the dict model = live row with that tag and id (pre-state snapshot taken by caller)"""
def h_read():
    st = mkstore(3); db = st.db
    tag = Tok(z3.Int("qtag"), "tag"); CTX.vars["qtag"] = tag.e; CTX.assume(z3.And(tag.e >= 0, tag.e <= 1))
    eid = SInt(z3.Int("qid")); CTX.vars["qid"] = eid.e
    pre = [(r.present, r.id, r.tag, r.blob) for r in db.rows]
    got = st.read(tag, eid)
    found = z3.Or([z3.And(p, i == eid.e, t == tag.e) for p, i, t, b in pre])
    if got is None:
        return CTX.check(found) == z3.unsat, "none"
    if not isinstance(got, Tok):
        return False, "read returned %s" % type(got).__name__
    claim = z3.Or([z3.And(p, i == eid.e, t == tag.e, b == got.e) for p, i, t, b in pre])
    return CTX.check(z3.Not(claim)) == z3.unsat, "blob"
def h_update():
    st = mkstore(3); db = st.db
    tag = Tok(z3.Int("qtag"), "tag"); CTX.vars["qtag"] = tag.e; CTX.assume(z3.And(tag.e >= 0, tag.e <= 1))
    eid = SInt(z3.Int("qid")); CTX.vars["qid"] = eid.e
    nb = Tok(z3.Int("newblob"), "c"); CTX.vars["newblob"] = nb.e
    pre = [(r.present, r.id, r.tag, r.blob) for r in db.rows]
    found = z3.Or([z3.And(p, i == eid.e, t == tag.e) for p, i, t, b in pre])
    try:
        st.update(tag, nb, eid); raised = False
    except ValueError: raised = True
    if raised: return CTX.check(found) == z3.unsat, "raised"
    # post: target row has new blob, all other rows unchanged (incl. other tags with same id)
    conj = [found]
    for (p, i, t, b), r in zip(pre, db.rows):
        hit = z3.And(p, i == eid.e, t == tag.e)
        conj.append(z3.If(hit, r.blob == nb.e, r.blob == b)); conj.append(r.present == p)
    return CTX.check(z3.Not(z3.And(conj))) == z3.unsat, "updated"
for name, h in (("read", h_read), ("update", h_update)):
    CTX.nq = 0
    leaves, dt = sx.explore(h)
    print(name, collections.Counter((l["status"], str(l.get("info"))[-60:]) for l in leaves), "%.2fs" % dt, CTX.nq)
