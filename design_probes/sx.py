"""prototype 2: re-execution DFS symbolic executor with bounded symbolic strings"""
import sys, time, z3

class PathAbort(BaseException): pass
class Inconclusive(BaseException): pass

class Ctx:
    def __init__(self):
        self.nq = 0; self.tq = 0.0
    def start(self, prefix):
        self.s = z3.Solver()
        self.prefix = prefix; self.idx = 0; self.trace = []; self.pending = []
        self.vars = {}; self.n = 0
    def fresh(self, p):
        self.n += 1; return "%s%d" % (p, self.n)
    def check(self, *a):
        t = time.perf_counter(); r = self.s.check(*a); self.tq += time.perf_counter() - t; self.nq += 1
        return r
    def assume(self, c):
        self.s.add(c)
    def branch(self, cond):
        cond = z3.simplify(cond)
        if z3.is_true(cond): return True
        if z3.is_false(cond): return False
        if self.idx < len(self.prefix):
            d = self.prefix[self.idx]; self.idx += 1
            self.s.add(cond if d else z3.Not(cond)); self.trace.append(d)
            return d
        rt = self.check(cond); rf = self.check(z3.Not(cond))
        if z3.unknown in (rt, rf): raise Inconclusive()
        self.idx += 1
        if rt == z3.sat and rf == z3.sat:
            self.pending.append(self.trace + [False])
            self.s.add(cond); self.trace.append(True); return True
        if rt == z3.sat:
            self.s.add(cond); self.trace.append(True); return True
        if rf == z3.sat:
            self.s.add(z3.Not(cond)); self.trace.append(False); return False
        raise PathAbort()
CTX = Ctx()

class SBool:
    def __init__(self, e): self.e = e
    def __bool__(self): return CTX.branch(self.e)
    __hash__ = None

N = 6
POISON = "￾"
def I(v): return z3.IntVal(v)

class SStr(str):
    """bounded symbolic string: chars[0..N-1] ints, ln int"""
    def __new__(cls, chars, ln, lit=None):
        o = str.__new__(cls, lit if lit is not None else POISON)
        o.chars = chars; o.ln = ln; o.lit = lit
        return o
    @staticmethod
    def of(x):
        if isinstance(x, SStr): return x
        assert isinstance(x, str)
        return SStr([I(ord(c)) for c in x], I(len(x)), lit=x)
    @staticmethod
    def sym(name, maxlen, alphabet):
        chars = [z3.Int("%s_c%d" % (name, i)) for i in range(maxlen)]
        ln = z3.Int(name + "_len")
        CTX.assume(z3.And(ln >= 0, ln <= maxlen))
        for c in chars:
            CTX.assume(z3.Or([c == ord(a) for a in alphabet]))
        CTX.vars[name] = (chars, ln)
        return SStr(chars, ln)
    def at(self, i):  # z3 expr: char at symbolic index i
        e = I(-1)
        for k in reversed(range(len(self.chars))):
            e = z3.If(i == k, self.chars[k], e)
        return e
    def __len__(self):
        # concretize length
        return SInt(self.ln).concretize()
    def __bool__(self): return CTX.branch(self.ln > 0)
    def __eq__(self, o):
        if not isinstance(o, str): return False
        o = SStr.of(o)
        n = max(len(self.chars), len(o.chars))
        conj = [self.ln == o.ln]
        for k in range(n):
            a = self.chars[k] if k < len(self.chars) else I(-1)
            b = o.chars[k] if k < len(o.chars) else I(-1)
            conj.append(z3.Or(k >= self.ln, a == b))
        return CTX.branch(z3.And(conj))
    def __ne__(self, o): return not self.__eq__(o)
    __hash__ = None
    def _slice(self, start, stop):
        # start, stop z3 ints with 0<=start<=stop<=ln
        n = len(self.chars)
        chars = [self.at(start + k) for k in range(n)]
        return SStr(chars, stop - start)
    def rstrip(self, ch):
        ch = SStr.of(ch); assert ch.lit is not None and len(ch.lit) == 1
        c = ord(ch.lit)
        # new length = largest j<=ln with (j==0 or chars[j-1]!=c)
        n = len(self.chars)
        e = I(0)
        for j in range(1, n + 1):
            e = z3.If(z3.And(j <= self.ln, self.chars[j-1] != c), I(j), e)
        # e = max j<=ln such that chars[j-1]!=c  (iterating ascending keeps the largest)
        return SStr(self.chars, e)
    def lstrip(self, ch):
        ch = SStr.of(ch); c = ord(ch.lit)
        n = len(self.chars)
        # start = smallest j<ln with chars[j]!=c else ln
        e = self.ln
        for j in reversed(range(n)):
            e = z3.If(z3.And(j < self.ln, self.chars[j] != c), I(j), e)
        return self._slice(e, self.ln)
    def strip(self, ch): return self.rstrip(ch).lstrip(ch)
    def replace(self, a, b):
        a = SStr.of(a); b = SStr.of(b); assert len(a.lit) == 1 and len(b.lit) == 1
        ca, cb = ord(a.lit), ord(b.lit)
        return SStr([z3.If(c == ca, I(cb), c) for c in self.chars], self.ln)
    def lower(self):
        def lw(c):
            e = c
            for u in range(ord('A'), ord('Z') + 1): e = z3.If(c == u, I(u + 32), e)
            e = z3.If(c == 0xC9, I(0xE9), e)
            return e
        return SStr([lw(c) for c in self.chars], self.ln)
    def startswith(self, p):
        p = SStr.of(p)
        conj = [p.ln <= self.ln]
        for k in range(len(p.chars)):
            a = self.chars[k] if k < len(self.chars) else I(-1)
            conj.append(z3.Or(k >= p.ln, a == p.chars[k]))
        return CTX.branch(z3.And(conj))
    def rfind(self, ch):
        ch = SStr.of(ch); c = ord(ch.lit)
        e = I(-1)
        for j in range(len(self.chars)):
            e = z3.If(z3.And(j < self.ln, self.chars[j] == c), I(j), e)
        return SInt(e)
    def __getitem__(self, k):
        if isinstance(k, slice):
            assert k.step is None
            start = _iz(k.start) if k.start is not None else I(0)
            stop = _iz(k.stop) if k.stop is not None else self.ln
            # clamp (non-negative indices only in this prototype)
            start = z3.If(start > self.ln, self.ln, start); stop = z3.If(stop > self.ln, self.ln, stop)
            stop = z3.If(stop < start, start, stop)
            return self._slice(start, stop)
        k = _iz(k)
        if not CTX.branch(z3.And(k >= 0, k < self.ln)):
            if CTX.branch(z3.And(k < 0, -k <= self.ln)):
                k = self.ln + k
            else:
                raise IndexError("string index out of range")
        return SStr([self.at(k)] , I(1))
    def __add__(self, o):
        o = SStr.of(o)
        n = min(len(self.chars) + len(o.chars), 3 * N)
        chars = [z3.If(k < self.ln, self.chars[k] if k < len(self.chars) else I(-1), o.at(k - self.ln)) for k in range(n)]
        return SStr(chars, self.ln + o.ln)
    def __radd__(self, o): return SStr.of(o).__add__(self)
    def join(self, parts):
        parts = list(parts)
        out = SStr.of("")
        for i, p in enumerate(parts):
            if i: out = out + self
            out = out + p
        return out
    def split_runs(self, c):
        """re.split('[c]+', s) semantics, forking on structure"""
        n = len(self)   # concretizes length
        parts = []; cur = []; in_sep = False
        for k in range(n):
            if CTX.branch(self.chars[k] == c):
                if not in_sep:
                    parts.append(cur); cur = []; in_sep = True
            else:
                cur.append(self.chars[k]); in_sep = False
        parts.append(cur)
        return [SStr(p, I(len(p))) for p in parts]
    def concrete(self, model):
        ln = model.eval(self.ln, model_completion=True).as_long()
        return "".join(chr(model.eval(c, model_completion=True).as_long()) for c in self.chars[:ln])
    def __repr__(self): return "SStr(%r)" % (self.lit,) if self.lit is not None else "SStr(<sym>)"
    __str__ = __repr__
    def __format__(self, spec):
        assert self.lit is not None; return self.lit

def _iz(k):
    if isinstance(k, SInt): return k.e
    return I(int(k))

class SInt:
    def __init__(self, e): self.e = e
    def _c(self, o, f):
        return SBool(f(self.e, _iz(o)))
    def __eq__(self, o): return self._c(o, lambda a, b: a == b)
    def __ne__(self, o): return self._c(o, lambda a, b: a != b)
    def __lt__(self, o): return self._c(o, lambda a, b: a < b)
    def __le__(self, o): return self._c(o, lambda a, b: a <= b)
    def __gt__(self, o): return self._c(o, lambda a, b: a > b)
    def __ge__(self, o): return self._c(o, lambda a, b: a >= b)
    def __add__(self, o): return SInt(self.e + _iz(o))
    __radd__ = __add__
    def __sub__(self, o): return SInt(self.e - _iz(o))
    def __rsub__(self, o): return SInt(_iz(o) - self.e)
    def concretize(self):
        s = z3.simplify(self.e)
        if z3.is_int_value(s): return s.as_long()
        while True:
            if CTX.check() != z3.sat: raise PathAbort()
            v = CTX.s.model().eval(self.e, model_completion=True).as_long()
            if CTX.branch(self.e == v): return v
    __index__ = concretize
    __int__ = concretize
    __hash__ = None

class FakeRe:
    @staticmethod
    def escape(s): return s
    @staticmethod
    def split(pat, s):
        assert pat.startswith("[") and pat.endswith("]+") and len(pat) == 4, pat
        s = SStr.of(s)
        return s.split_runs(ord(pat[1]))

def _model(m):
    out = {}
    for k, v in CTX.vars.items():
        if isinstance(v, tuple): out[k] = SStr(v[0], v[1]).concrete(m)
        else: out[k] = str(m.eval(v, model_completion=True))
    return out

def explore(fn, limit=1000000):
    """fn() -> (ok, info). returns list of leaf records"""
    work = [[]]; leaves = []
    t0 = time.time()
    while work:
        prefix = work.pop()
        CTX.start(prefix)
        rec = {}
        try:
            ok, info = fn()
            rec["status"] = "ok" if ok else "fail"; rec["info"] = info
            if not ok:
                assert CTX.check() == z3.sat
                m = CTX.s.model()
                rec["model"] = _model(m)
        except PathAbort: rec["status"] = "abort"
        except Inconclusive: rec["status"] = "inconclusive"
        except Exception as e:
            import traceback
            rec["status"] = "exc"; rec["info"] = traceback.format_exc()[-1500:]
            if CTX.check() == z3.sat:
                m = CTX.s.model(); rec["model"] = _model(m)
        work.extend(CTX.pending); leaves.append(rec)
        if len(leaves) >= limit: break
    return leaves, time.time() - t0
