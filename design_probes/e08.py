from lab2 import *
from tok import Tok
from cloudsync.sync.state import SyncState, SyncEntry, Exists
from cloudsync.types import FILE, DIRECTORY, IgnoreReason, OType
EX = list(Exists); IG = list(IgnoreReason)
def symval(name, kinds):
    k = choose(name + "_kind", len(kinds)); kind = kinds[k]
    if kind == "none": return None
    if kind == "tok": return Tok.fresh(name)
    if kind == "str": return Tok(z3.Int(name + "_s"), "s", name)
    if kind == "int": return 7
    if kind == "tuple": return (Tok.fresh(name + "_0"), (Tok.fresh(name + "_1"),))
    if kind == "dict": return {"k": Tok.fresh(name + "_d")}
def same(a, b):
    if isinstance(a, Tok) or isinstance(b, Tok):
        if not (isinstance(a, Tok) and isinstance(b, Tok)) or a.kind != b.kind: return False
        return CTX.check(a.e != b.e) == z3.unsat
    if isinstance(a, (tuple, list)) and isinstance(b, (tuple, list)):
        return len(a) == len(b) and all(same(x, y) for x, y in zip(a, b))
    if isinstance(a, dict) and isinstance(b, dict):
        return a.keys() == b.keys() and all(same(a[k], b[k]) for k in a)
    return a == b and type(a) == type(b)
FIELDS = ["otype", "hash", "changed", "sync_hash", "path", "sync_path", "oid", "exists", "temp_file", "size", "mtime", "_saved_exists"]
def h():
    reset()
    provs = (mk(False), mk(False))
    st = SyncState(provs, MockStorage({}), tag="t")
    ent = SyncEntry(st, FILE)
    side = choose("side", 2)
    s = ent[side]
    s.oid = ["o1", "ö/2"][choose("oid", 2)]
    s.path = [None, "/a", "/é b"][choose("path", 3)]
    s.hash = symval("hash", ["none", "tok", "tuple", "dict"])
    s.sync_hash = symval("sync_hash", ["none", "tok"])
    s.sync_path = [None, "/a"][choose("sp", 2)]
    s.exists = EX[choose("exists", len(EX))]
    if choose("then_corrupt", 2): s.exists = Exists.CORRUPT
    ent.ignored = IG[choose("ign", len(IG))]
    ser = ent.serialize()
    st2 = SyncState(provs, MockStorage({"t": {5: ser}}), tag="t")
    ent2 = st2.lookup_oid(side, s.oid)
    if ent2 is None: return False, "not loaded"
    bad = []
    for sd in (0, 1):
        for f in FIELDS:
            a = getattr(ent[sd], f if f.startswith("_") else "_" + f); b = getattr(ent2[sd], f if f.startswith("_") else "_" + f)
            if not same(a, b): bad.append((sd, f, repr(a), repr(b)))
    if ent.ignored != ent2.ignored: bad.append(("ignored", ent.ignored, ent2.ignored))
    return not bad, bad
leaves, dt = sx.explore(h)
print(collections.Counter(l["status"] for l in leaves), len(leaves), "%.1fs" % dt, CTX.nq)
seen = collections.Counter(str(l["info"])[:300] for l in leaves if l["status"] != "ok")
for k, v in seen.most_common(8): print(v, k)
