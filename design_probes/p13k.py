def x1(a: str, b: str):
    """
    pre: a == '/ ' and b == '/ /.'
    post: _ == True
    """
    a = a.rstrip('/')
    if a == b:
        return None
    return b.startswith(a)
def x2(a: str, b: str):
    """
    pre: a == '/ ' and b == '/ /.'
    post: _ == [47, 32]
    """
    a = a.rstrip('/')
    if a == b:
        return None
    return [ord(c) for c in a]
def x3(a: str, b: str):
    """
    pre: a == '/ ' and b == '/ /.'
    post: _ == [47, 32]
    """
    a = a.rstrip('/')
    return [ord(c) for c in a]
def x4(a: str, b: str):
    """
    pre: a == '/ ' and b == '/ /.'
    post: _ == 2
    """
    a = a.rstrip('/')
    if a == b:
        return None
    return len(a)
def x5(a: str, b: str):
    """
    pre: a == '/ ' and b == '/ /.'
    post: _ == '/ '
    """
    a = a.rstrip('/')
    if a == b:
        return None
    return a
