def w1(a: str, b: str):
    """
    pre: a == '/ ' and b == '/ /.'
    post: _ == True
    """
    a = a.rstrip('/'); b = b.rstrip('/')
    if a == b:
        return None
    return b.startswith(a)
def w2(a: str, b: str):
    """
    pre: a == '/ ' and b == '/ /.'
    post: _ == True
    """
    a = a.replace('x', '/'); b = b.replace('x', '/')
    if a == b:
        return None
    return b.startswith(a)
def w3(a: str, b: str):
    """
    pre: a == '/ ' and b == '/ /.'
    post: _ == True
    """
    a = a.rstrip('/')
    if a == b:
        return None
    return b.startswith(a)
def w4(a: str, b: str):
    """
    pre: a == '/ ' and b == '/ /.'
    post: _ == True
    """
    b = b.rstrip('/')
    if a == b:
        return None
    return b.startswith(a)
def w5(a: str, b: str):
    """
    pre: a == 'ab' and b == 'abc'
    post: _ == True
    """
    b = b.rstrip('/')
    if a == b:
        return None
    return b.startswith(a)
def w6(a: str, b: str):
    """
    pre: len(a) == 2 and len(b) == 4
    post: _ == True
    """
    b = b.rstrip('/')
    if a == b:
        return True
    if b.startswith(a):
        return True
    return a != b[:2]
