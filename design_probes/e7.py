from lab2 import *
from e1 import userop, FLAV
import json, sys
class Crash(BaseException): pass
class CrashStorage(MockStorage):
    def __init__(self, d):
        super().__init__(d); self.n = 0; self.crash_at = None
    def _w(self):
        self.n += 1
        if self.crash_at is not None and self.n == self.crash_at: raise Crash("storage %d" % self.n)
    def create(self, *a): self._w(); return super().create(*a)
    def update(self, *a): self._w(); return super().update(*a)
    def delete(self, *a): self._w(); return super().delete(*a)
class ProvWrap:
    MUT = ("create", "upload", "rename", "delete", "mkdir")
    def __init__(self, prov):
        self.n = 0; self.crash_at = None; self.active = False
        for name in self.MUT:
            orig = getattr(prov, name)
            def w(*a, _o=orig, _n=name, **k):
                r = _o(*a, **k)
                if self.active:
                    self.n += 1
                    if self.crash_at is not None and self.n == self.crash_at: raise Crash("prov %s %d" % (_n, self.n))
                return r
            setattr(prov, name, w)
def restart_provider(p):
    p._cursor = p._latest_cursor
def stepx(cs, o):
    try:
        if o == 2: cs.smgr.do()
        else: cs.emgrs[o].do()
    except RN._BackoffError: pass

def history(flavour, nops, base, mode):
    def h():
        reset()
        f = FLAV[flavour]
        l, r = mk(f[0]), mk(f[1])
        st = CrashStorage({})
        pw = ProvWrap(l); pw2 = ProvWrap(r)   # separate counters per side
        roots = ("/L", "/R")
        cs = CloudSync((l, r), roots=roots, storage=st, sleep=None); cs.aging = 0
        l.mkdir("/L"); r.mkdir("/R")
        if base >= 1: l.create("/L/a", io.BytesIO(b"base"))
        if base >= 2: l.mkdir("/L/d")
        if drain(cs) is None: return False, "base not quiescent"
        hist = []
        for k in range(nops):
            side = 0
            d = userop((l, r)[side], roots[side], k, b"%d" % k)
            hist.append((side,) + tuple(d))
        # choose crash point
        which = choose("crashkind", 3)   # 0 storage, 1 local prov, 2 remote prov
        at = choose("crashat", 12) + 1
        tgt = (st, pw, pw2)[which]
        tgt.crash_at = at; tgt.n = 0
        pw.active = pw2.active = True
        crashed = False
        try:
            q = drain(cs)
        except Crash as e:
            crashed = True; hist.append(str(e))
        pw.active = pw2.active = False
        tgt.crash_at = None
        if not crashed:
            return True, "nocrash"
        # restart
        for m in cs.emgrs: EV.EventManager._provider_guard.remove(m.provider)
        restart_provider(l); restart_provider(r)
        cs2 = CloudSync((l, r), roots=roots, storage=st, sleep=None); cs2.aging = 0
        q = drain(cs2)
        if q is None: return False, {"h": hist, "why": "no quiescence"}
        tl, tr = tree(l, "/L"), tree(r, "/R")
        ok = tl == tr
        return ok, {"h": hist, "l": {k: (v.decode() if v is not None else None) for k, v in tl.items()}, "r": {k: (v.decode() if v is not None else None) for k, v in tr.items()}}
    return h
if __name__ == "__main__":
    flav, nops, base = sys.argv[1], int(sys.argv[2]), int(sys.argv[3])
    leaves, dt = sx.explore(history(flav, nops, base, 0))
    c = collections.Counter(l["status"] for l in leaves)
    nocrash = sum(1 for l in leaves if l.get("info") == "nocrash")
    print(flav, nops, base, dict(c), "paths", len(leaves), "nocrash", nocrash, "%.1fs" % dt, "queries", CTX.nq, "solver %.1fs" % CTX.tq)
    seen = collections.Counter()
    for l in leaves:
        if l["status"] in ("fail", "exc"):
            info = l["info"]
            key = json.dumps(info["h"]) if isinstance(info, dict) else str(info)[-300:]
            seen[key] += 1
    for k, v in seen.most_common(30): print(v, k)
    for l in leaves:
        if l["status"] in ("fail", "exc"): print(l); break
