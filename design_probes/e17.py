from lab2 import *
from sreal import SReal, _r
from cloudsync.sync.state import SyncState
from cloudsync.types import FILE
import z3
class SymClock:
    def __init__(self): self.last = z3.RealVal(1); self.n = 0; self.reads = []
    def time(self):
        self.n += 1
        t = z3.Real("t%d" % self.n)
        CTX.assume(t >= self.last); self.last = t; self.reads.append(t)
        CTX.vars["t%d" % self.n] = t
        return SReal(t)
def valid(claim):
    """claim: z3 bool; proven iff pc & not claim unsat"""
    r = CTX.check(z3.Not(claim))
    return r == z3.unsat
def h():
    reset()
    clk = SymClock(); S.time = clk
    try:
        provs = (mk(False), mk(False))
        prios = {}
        def prioritize(side, path):
            if path not in prios:
                v = z3.Int("prio_" + path.strip("/")); CTX.assume(z3.And(v >= -1, v <= 1)); CTX.vars[str(v)] = v
                prios[path] = SInt(v)
            return prios[path]
        st = SyncState(provs, prioritize=prioritize)
        ents = []
        for i, (side, oid, path) in enumerate([(0, "o1", "/a"), (1, "o2", "/b")]):
            st.update(side, FILE, oid, path=path, hash=b"h%d" % i, exists=True)
            ents.append(st.lookup_oid(side, oid))
        # optional punt of first entry
        if choose("punt", 2): ents[0].punt()
        age = z3.Real("age"); CTX.assume(age >= 0); CTX.vars["age"] = age
        nreads = len(clk.reads)
        r = st.change(SReal(age))
        now = clk.reads[nreads]          # the time.time() read inside change()
        def elig(e):
            cs = []
            for side in (0, 1):
                c = e[side].changed
                if c is None or (not isinstance(c, SReal) and not c): continue
                cs.append(z3.And(_r(c) != 0, _r(c) <= now - age))
            p = e.priority
            pz = p.e if isinstance(p, SInt) else (_r(p) if isinstance(p, SReal) else z3.RealVal(repr(p)) if isinstance(p, float) else z3.IntVal(p))
            return z3.Or(cs + [pz < 0])
        if r is None:
            return valid(z3.Not(z3.Or([elig(e) for e in ents]))), "none-case"
        ok = valid(elig(r))
        return ok, "picked %d" % ents.index(r)
    finally:
        S.time = CLOCK
leaves, dt = sx.explore(h)
print(collections.Counter((l["status"], str(l.get("info"))[:40]) for l in leaves), "%.1fs" % dt, CTX.nq, "%.1fs" % CTX.tq)
for l in leaves:
    if l["status"] not in ("ok",): print(l); break
