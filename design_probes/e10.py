from lab2 import *
from e1 import userop, FLAV
import cloudsync.exceptions as ex
import json, sys
KINDS = [ex.CloudTemporaryError, ex.CloudDisconnectedError, ex.CloudTokenError, ex.CloudOutOfSpaceError]
API = ("info_path", "info_oid", "create", "upload", "download", "rename", "delete", "mkdir", "listdir", "events", "hash_oid", "exists_oid", "exists_path")
class Faults:
    def __init__(self): self.n = 0; self.at = None; self.kind = None; self.active = False; self.fired = None
    def wrap(self, prov, side):
        for name in API:
            orig = getattr(prov, name)
            if name in ("events", "listdir"):
                def w(*a, _o=orig, _n=name, **k):
                    self.hit(prov, side, _n)
                    yield from _o(*a, **k)
            else:
                def w(*a, _o=orig, _n=name, **k):
                    self.hit(prov, side, _n)
                    return _o(*a, **k)
            setattr(prov, name, w)
    def hit(self, prov, side, name):
        if not self.active: return
        self.n += 1
        if self.at == self.n:
            self.fired = (side, name, self.kind.__name__)
            if self.kind in (ex.CloudDisconnectedError, ex.CloudTokenError): prov.disconnect()
            raise self.kind("injected")
def runstep(cs, o):
    m = (cs.emgrs[0], cs.emgrs[1], cs.smgr)[o]
    m.run(until=lambda: True)     # one iteration of the real service loop
def drainx(cs, maxrounds=60):
    for i in range(maxrounds):
        for o in (0, 1, 2): runstep(cs, o)
        if not cs.busy: return i
    return None
def history(flavour, nops, base):
    def h():
        reset()
        f = FLAV[flavour]
        l, r = mk(f[0]), mk(f[1]); st = MockStorage({}); roots = ("/L", "/R")
        notes = []
        class CS2(CloudSync):
            def handle_notification(self, n): notes.append((n.source.name, n.ntype.name))
        cs = CS2((l, r), roots=roots, storage=st, sleep=None); cs.aging = 0
        l.mkdir("/L"); r.mkdir("/R")
        if base >= 1: l.create("/L/a", io.BytesIO(b"base"))
        if base >= 2: l.mkdir("/L/d")
        if drain(cs) is None: return False, "base"
        hist = []
        for k in range(nops):
            d = userop(l, roots[0], k, b"%d" % k); hist.append(d)
        F = Faults(); F.wrap(l, 0); F.wrap(r, 1)
        F.at = choose("at", 25) + 1; F.kind = KINDS[choose("kind", 4)]; F.active = True
        try:
            q = drainx(cs)
        except BaseException as e:
            return False, {"h": hist, "why": "escaped %r" % e, "fault": F.fired}
        F.active = False
        if F.fired is None: return True, "nofault"
        if q is None: return False, {"h": hist, "why": "no quiescence", "fault": F.fired}
        # deliver notifications
        cs.nmgr._run_until = True
        for i in range(20): cs.nmgr.do()
        tl, tr = tree(l, "/L"), tree(r, "/R")
        want = {"CloudTemporaryError": "TEMPORARY_ERROR", "CloudDisconnectedError": "DISCONNECTED_ERROR", "CloudOutOfSpaceError": "OUT_OF_SPACE_ERROR", "CloudTokenError": None}[F.fired[2]]
        notified = want is None or any(n[1] == want for n in notes)
        ok = tl == tr and notified
        return ok, {"h": hist, "fault": F.fired, "notes": notes, "conv": tl == tr, "notified": notified}
    return h
if __name__ == "__main__":
    flav, nops, base = sys.argv[1], int(sys.argv[2]), int(sys.argv[3])
    leaves, dt = sx.explore(history(flav, nops, base))
    c = collections.Counter(l["status"] for l in leaves)
    print(flav, nops, base, dict(c), "paths", len(leaves), "nofault", sum(1 for l in leaves if l.get("info") == "nofault"), "%.1fs" % dt, CTX.nq)
    seen = collections.Counter()
    for l in leaves:
        if l["status"] in ("fail", "exc"):
            info = l["info"]
            key = json.dumps([info.get("fault"), info.get("why"), info.get("conv"), info.get("notified")]) if isinstance(info, dict) else str(info)[-400:]
            seen[key] += 1
    for k, v in seen.most_common(25): print(v, k)
    for l in leaves:
        if l["status"] in ("fail", "exc"): print(str(l)[:1200]); break
