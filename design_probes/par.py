import os, sys, time, json, multiprocessing as mp, collections
import z3, sx
from sx import CTX, PathAbort, Inconclusive, _model
def run_one(fn, prefix):
    CTX.start(prefix)
    rec = {}
    try:
        ok, info = fn()
        rec["status"] = "ok" if ok else "fail"; rec["info"] = info
        if not ok and CTX.check() == z3.sat: rec["model"] = _model(CTX.s.model())
    except PathAbort: rec["status"] = "abort"
    except Inconclusive: rec["status"] = "inconclusive"
    except Exception as e:
        import traceback
        rec["status"] = "exc"; rec["info"] = traceback.format_exc()[-800:]
    rec["prefix"] = list(CTX.trace)
    return rec, list(CTX.pending)
def subtree(args):
    fn, prefix = args
    work = [prefix]; out = []; nq0 = CTX.nq; tq0 = CTX.tq
    while work:
        rec, pend = run_one(fn, work.pop())
        out.append(rec); work.extend(pend)
    summary = collections.Counter(r["status"] for r in out)
    bad = [r for r in out if r["status"] not in ("ok", "abort")]
    return dict(summary), bad[:50], CTX.nq - nq0, CTX.tq - tq0
_FN = None
def _sub(prefix): return subtree((_FN, prefix))
def explore_parallel(fn, nworkers=16, frontier=256):
    global _FN
    _FN = fn
    t0 = time.time()
    work = [[]]; done = []
    # breadth-first seeding until enough pending prefixes
    while work and len(work) < frontier:
        rec, pend = run_one(fn, work.pop(0))
        done.append(rec); work.extend(pend)
    total = collections.Counter(r["status"] for r in done); bad = [r for r in done if r["status"] not in ("ok", "abort")]
    nq = CTX.nq; tq = CTX.tq
    if work:
        ctx = mp.get_context("fork")
        with ctx.Pool(nworkers) as pool:
            for summ, b, q, t in pool.imap_unordered(_sub, work, chunksize=1):
                total.update(summ); bad.extend(b); nq += q; tq += t
    return total, bad, nq, tq, time.time() - t0
if __name__ == "__main__":
    sys.path.insert(0, "/verif/design_probes")
    import e1
    flav, nops, nsched, base = sys.argv[1], int(sys.argv[2]), int(sys.argv[3]), int(sys.argv[4])
    total, bad, nq, tq, dt = explore_parallel(e1.history(flav, nops, nsched, base), int(sys.argv[5]))
    print(flav, nops, nsched, base, dict(total), sum(total.values()), "paths", "%.1fs wall" % dt, nq, "queries", "%.1fs solver" % tq)
    seen = collections.Counter(json.dumps([x for x in b["info"]["h"] if not isinstance(x, str)]) for b in bad if isinstance(b.get("info"), dict))
    for k, v in seen.most_common(10): print(v, k)
