from lab2 import *
from e3 import Rec
import cloudsync.smartsync as SS, json, sys
SS.time = CLOCK
from cloudsync.smartsync import SmartCloudSync
def history(nact, nsched):
    def h():
        reset()
        l, r = mk(False), mk(False); st = MockStorage({}); roots = ("/L", "/R")
        recs = (Rec(l, "L"), Rec(r, "R"))
        cs = SmartCloudSync((l, r), roots=roots, storage=st, sleep=None); cs.aging = 0
        l.mkdir("/L"); r.mkdir("/R")
        r.create("/R/a", io.BytesIO(b"A0")); r.mkdir("/R/d")
        if drain(cs) is None: return False, "base"
        requested = False; hist = []; bad = []
        for rc in recs: rc.on = True
        for k in range(nact):
            a = choose("act", 7); tag = b"%d" % k
            try:
                if a == 0:
                    i = r.info_path("/R/a")
                    if i: r.upload(i.oid, io.BytesIO(b"A" + tag)); hist.append("redit")
                    else: r.create("/R/a", io.BytesIO(b"A" + tag)); hist.append("rcreate")
                elif a == 1:
                    i = r.info_path("/R/a")
                    if i: r.delete(i.oid); hist.append("rdelete")
                    else: hist.append("noop")
                elif a == 2: l.create("/L/c%d" % k, io.BytesIO(b"C" + tag)); hist.append("lcreate")
                elif a == 3:
                    i = l.info_path("/L/a")
                    if i: l.upload(i.oid, io.BytesIO(b"L" + tag)); hist.append("ledit")
                    else: hist.append("noop")
                elif a == 4:
                    cs.smart_sync_path("/R/a", 1); requested = True; hist.append("request")
                elif a == 5:
                    ncalls = len(recs[1].calls)
                    res = cs.smart_unsync_path("/L/a", 0); hist.append("unrequest")
                    if res: requested = False
                    if any(c[1] == "delete" for c in recs[1].calls[ncalls:]): bad.append("remote delete on unsync")
                elif a == 6:
                    ls = {i.path: i.is_synced for i in cs.smart_listdir_path("/L")}; hist.append("listdir")
                    for p in tree(l, "/L"):
                        if "/" not in p[1:] and ls.get("/L" + p) is not True: bad.append("listdir local %s %s" % (p, ls.get("/L" + p)))
            except cloudsync.CloudException as e:
                hist.append("exc:" + type(e).__name__)
            # safety: unrequested remote-only file must not be created locally
            for j in range(nsched):
                s = choose("sch", 4)
                if s < 3: step(cs, s)
            if not requested and any(c[0] == "L" and c[1] == "create" and c[2:] and c[2].endswith("/a") for c in recs[0].calls):
                pass
        if drain(cs) is None: return False, {"h": hist, "why": "noq"}
        tl, tr = tree(l, "/L"), tree(r, "/R")
        # local creations uploaded, folders mirrored
        for p, v in tl.items():
            if p.startswith("/c") and tr.get(p) != v: bad.append("local creation not uploaded %s" % p)
        if ("/d" in tr) != ("/d" in tl): bad.append("folder not mirrored")
        ever_requested = "request" in hist
        if not ever_requested and "/a" in tl: bad.append("downloaded unrequested")
        if requested and "/a" in tr and tl.get("/a") != tr.get("/a"): bad.append("requested not in sync l=%s r=%s" % (tl.get("/a"), tr.get("/a")))
        return not bad, {"h": hist, "bad": bad, "l": str(tl), "r": str(tr)}
    return h
if __name__ == "__main__":
    nact, nsched = int(sys.argv[1]), int(sys.argv[2])
    leaves, dt = sx.explore(history(nact, nsched))
    print(nact, nsched, dict(collections.Counter(l["status"] for l in leaves)), len(leaves), "%.1fs" % dt)
    seen = collections.Counter()
    for l in leaves:
        if l["status"] != "ok":
            i = l["info"]; seen[json.dumps([i.get("h"), i.get("bad"), i.get("why")]) if isinstance(i, dict) else str(i)[-400:]] += 1
    for k, v in seen.most_common(15): print(v, k[:400])
    for l in leaves:
        if l["status"] != "ok": print(str(l)[:1000]); break
