from lab2 import *
from cloudsync.hierarchical_cache import HierarchicalCache
from cloudsync.types import FILE, DIRECTORY
import sys
PATHS = ["/a", "/b", "/a/a", "/a/b", "/b/a"]
OIDS = ["o1", "o2", "o3"]
def check(hc, prov):
    # structural invariants
    seen = {}
    def walk(node, depth=0):
        assert depth < 10, "cycle"
        if node.oid is not None:
            assert node.oid not in seen, "oid on two nodes %s" % node.oid
            seen[node.oid] = node
        for name, ch in node.children.items():
            assert ch.parent is node, "bad parent link %s" % name
            assert ch.name == name, "name mismatch"
            assert node.type == DIRECTORY, "file with children"
            walk(ch, depth + 1)
    walk(hc._root)
    assert set(hc._oid_to_node.keys()) == set(seen.keys()), "oid map %s vs tree %s" % (sorted(hc._oid_to_node), sorted(seen))
    for o, n in hc._oid_to_node.items():
        assert seen[o] is n, "oid map points to detached node %s" % o
        p = hc.get_path(o); assert p is not None, "no path for %s" % o
        assert hc.get_oid(p) == o, "roundtrip %s %s" % (o, p)
def h(nops, cs):
    def f():
        reset()
        prov = mk(False, case_sensitive=cs)
        hc = HierarchicalCache(prov, "root")
        hist = []
        for k in range(nops):
            op = choose("op", 7)
            p = PATHS[choose("p", len(PATHS))]
            try:
                if op == 0: o = OIDS[choose("o", 3)]; hist.append(("create", p, o)); hc.create(p, o)
                elif op == 1: o = [None] + OIDS; o = o[choose("o", 4)]; hist.append(("mkdir", p, o)); hc.mkdir(p, o)
                elif op == 2: q = PATHS[choose("q", len(PATHS))]; hist.append(("rename", p, q)); hc.rename(p, q)
                elif op == 3: hist.append(("delete_path", p)); hc.delete(path=p)
                elif op == 4: o = OIDS[choose("o", 3)]; hist.append(("delete_oid", o)); hc.delete(oid=o)
                elif op == 5: o = OIDS[choose("o", 3)]; t = (FILE, DIRECTORY)[choose("t", 2)]; hist.append(("set_oid", p, o, t.value)); hc.set_oid(p, o, t)
                elif op == 6: o = [None] + OIDS; o = o[choose("o", 4)]; t = (FILE, DIRECTORY)[choose("t", 2)]; hist.append(("update", p, t.value, o)); hc.update(p, t, oid=o)
            except (ValueError, LookupError) as e:
                hist.append(("raised", type(e).__name__))
            try: check(hc, prov)
            except AssertionError as e: return False, {"h": hist, "why": str(e)}
        return True, None
    return f
n = int(sys.argv[1])
leaves, dt = sx.explore(h(n, True))
print(collections.Counter(l["status"] for l in leaves), len(leaves), "%.1fs" % dt, CTX.nq)
seen = collections.Counter((l["info"]["why"] if isinstance(l["info"], dict) else str(l["info"])[-300:]) for l in leaves if l["status"] != "ok")
for k, v in seen.most_common(10): print(v, k)
for l in leaves:
    if l["status"] != "ok": print(l["info"]); break
