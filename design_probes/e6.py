from lab2 import *
from e1 import userop, FLAV
from e3 import Rec
import json, sys
class DictStorage(cloudsync.Storage):
    def __init__(self): self.d = {}; self.n = 0
    def create(self, tag, ser): self.n += 1; self.d.setdefault(tag, {})[self.n] = ser; return self.n
    def update(self, tag, ser, eid):
        if eid not in self.d.get(tag, {}): raise ValueError("id %s doesn't exist" % eid)
        self.d[tag][eid] = ser; return 1
    def delete(self, tag, eid): self.d.get(tag, {}).pop(eid, None)
    def read_all(self, tag=None):
        if tag is not None: return dict(self.d.get(tag, {}))
        return {t: dict(v) for t, v in self.d.items() if v}
    def read(self, tag, eid): return self.d.get(tag, {}).get(eid)
def history(flavour, nops, base, variant):
    def h():
        reset()
        f = FLAV[flavour]
        l, r = mk(f[0]), mk(f[1]); st = DictStorage(); roots = ("/L", "/R")
        recs = (Rec(l, "L"), Rec(r, "R"))
        cs = CloudSync((l, r), roots=roots, storage=st, sleep=None); cs.aging = 0
        l.mkdir("/L"); r.mkdir("/R")
        l.create("/L/keep", io.BytesIO(b"keep"))
        if base >= 1: l.create("/L/a", io.BytesIO(b"base"))
        if base >= 2: l.mkdir("/L/d")
        if drain(cs) is None: return False, "base"
        provs = (l, r); hist = []
        # pre-stop op + partial engine work
        side = choose("side", 2)
        hist.append((side,) + tuple(userop(provs[side], roots[side], 0, b"0")))
        nsteps = choose("cut", 5)
        for j in range(nsteps):
            s = choose("sch", 3); hist.append("s%d" % s); step(cs, s)
        # stop
        for m in cs.emgrs: EV.EventManager._provider_guard.remove(m.provider)
        # offline op
        side2 = choose("side", 2)
        hist.append(("offline", side2) + tuple(userop(provs[side2], roots[side2], 1, b"1")))
        l._cursor = l._latest_cursor; r._cursor = r._latest_cursor
        if variant == 1:
            for t in list(st.d):
                if "_cursor_" in t: st.d[t] = {}
        if variant == 2:
            for t in list(st.d):
                if "_cursor_" in t:
                    for k in st.d[t]: st.d[t][k] = "bogus"
        cs2 = CloudSync((l, r), roots=roots, storage=st, sleep=None); cs2.aging = 0
        for rc in recs: rc.on = True
        q = drain(cs2)
        for rc in recs: rc.on = False
        if q is None: return False, {"h": hist, "why": "noq"}
        tl, tr = tree(l, "/L"), tree(r, "/R")
        nl = {k: v for k, v in tl.items() if ".conflicted" not in k}; nr = {k: v for k, v in tr.items() if ".conflicted" not in k}
        retransfer = [c for rc in recs for c in rc.calls if c[1] in ("create", "upload") and any("keep" in str(x) for x in c[2:])]
        ok = nl == nr and not retransfer
        return ok, {"h": hist, "conv": nl == nr, "retransfer": retransfer, "l": str(tl)[:150], "r": str(tr)[:150]}
    return h
if __name__ == "__main__":
    flav, nops, base, variant = sys.argv[1], int(sys.argv[2]), int(sys.argv[3]), int(sys.argv[4])
    leaves, dt = sx.explore(history(flav, nops, base, variant))
    print(flav, base, "variant", variant, dict(collections.Counter(l["status"] for l in leaves)), len(leaves), "%.1fs" % dt)
    seen = collections.Counter()
    for l in leaves:
        if l["status"] != "ok":
            i = l["info"]; seen[json.dumps([[x for x in i.get("h") if not isinstance(x, str)], i.get("conv"), bool(i.get("retransfer"))]) if isinstance(i, dict) else str(i)[-300:]] += 1
    for k, v in seen.most_common(12): print(v, k)
    for l in leaves:
        if l["status"] != "ok": print(str(l)[:1000]); break
