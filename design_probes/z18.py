import z3, time
mn, mx, mult = z3.Reals("mn mx mult")
def zmin(a,b): return z3.If(a<=b,a,b)
def zmax(a,b): return z3.If(a>=b,a,b)
for K in range(1,9):
    s = z3.Solver(); s.set("timeout", 60000)
    s.add(mn>0, mx>=mn, mult>=1)
    b = z3.RealVal(0)
    for k in range(1,K+1):
        b = zmin(mx, zmax(b*mult, mn))
    closed = mn
    for k in range(K-1): closed = closed*mult
    closed = zmin(mx, closed)
    s.add(b != closed)
    t=time.time(); r = s.check(); print(K, r, "%.2fs"%(time.time()-t))
