from lab2 import *
from tok import Tok, TokFile
import sys, json
def h():
    reset()
    l, r = mk(False), mk(False)
    st = MockStorage({}); roots = ("/L", "/R")
    calls = []
    ans = choose("ans", 5)
    class CS2(CloudSync):
        def resolve_conflict(self, f1, f2):
            d = {f1.side: f1, f2.side: f2}
            calls.append((f1.side, f1.read(), f2.side, f2.read()))
            f1.seek(0); f2.seek(0)
            if ans == 4: return None
            return (d[ans % 2], ans < 2)
    cs = CS2((l, r), roots=roots, storage=st, sleep=None); cs.aging = 0
    l.mkdir("/L"); r.mkdir("/R")
    cl, cr = Tok.fresh("cl"), Tok.fresh("cr")
    l.create("/L/a", TokFile(cl)); r.create("/R/a", TokFile(cr))
    for j in range(2):
        s = choose("sch", 3); step(cs, s)
    q = drain(cs)
    if q is None: return False, "noq"
    class Sink:
        def write(self, b): self.b = b
    def tree2(p, root):
        out = {}
        for e in p.walk(root):
            if e.otype.value == "file":
                s = Sink(); p.download(e.oid, s); out[e.path[len(root):]] = s.b
        return out
    tl, tr = tree2(l, "/L"), tree2(r, "/R")
    same = sx.CTX.check(cl.e != cr.e) == z3.unsat     # path condition forces equal contents?
    info = {"ans": ans, "same": same, "ncalls": len(calls), "l": {k: repr(v) for k, v in tl.items()}, "r": {k: repr(v) for k, v in tr.items()}}
    if same: ok = len(calls) == 0 and set(tl) == {"/a"} and set(tr) == {"/a"}
    else:
        ok = len(calls) == 1
        win = {0: "cl", 1: "cr", 2: "cl", 3: "cr", 4: "cr"}[ans]
        ok = ok and tl["/a"].label == win and tr["/a"].label == win
    return ok, info
leaves, dt = sx.explore(h)
print(collections.Counter((l["status"], json.dumps(l["info"]) if isinstance(l["info"], dict) else str(l["info"])[-200:]) for l in leaves).most_common(12))
print(len(leaves), "%.1fs" % dt, CTX.nq)
