import sys, logging, collections
sys.path.insert(0, '/repo'); sys.path.insert(0, '/verif/design_probes')
logging.disable(logging.CRITICAL)
import cloudsync.utils as U
U.debug_sig = lambda t, size=3: "x"
import cloudsync.provider as PV
from cloudsync.providers.mock import MockProvider
import sx
from sx import SStr, CTX, explore
PV.re = sx.FakeRe
ALPH = "/\\aAb. :é"
def provider(case_sensitive, win_paths=False):
    ns = {k: (lambda self, *a, **k: None) for k in PV.Provider.__abstractmethods__}
    ns.update(sep=SStr.of("/"), alt_sep=SStr.of("\\"), case_sensitive=case_sensitive, win_paths=win_paths)
    P = type("P", (PV.Provider,), ns)
    return P()
P = provider(True); PI = provider(False); PW = provider(True, True)

def law_prefix_sibling(prov):
    def f():
        folder = SStr.sym("folder", 4, ALPH); x = SStr.sym("x", 2, ALPH)
        CTX.assume(folder.ln >= 2); CTX.assume(folder.chars[0] == ord("/"))
        import z3
        # folder has no trailing sep/altsep, x nonempty and not starting with sep
        CTX.assume(z3.And(folder.at(folder.ln - 1) != ord("/"), folder.at(folder.ln - 1) != ord("\\")))
        CTX.assume(z3.And(x.ln >= 1, x.chars[0] != ord("/"), x.chars[0] != ord("\\")))
        r = prov.is_subpath(folder, folder + x)
        return (r is False), None
    return f
def law_join_sub(prov):
    def f():
        import z3
        folder = SStr.sym("folder", 4, ALPH); rel = SStr.sym("rel", 3, ALPH)
        CTX.assume(z3.And(folder.ln >= 1, folder.chars[0] == ord("/")))
        CTX.assume(rel.ln >= 1)
        for c in rel.chars: CTX.assume(z3.And(c != ord("/"), c != ord("\\")))
        j = prov.join(folder, rel)
        r = prov.is_subpath(folder, j)
        if r is False: return False, "not subpath"
        return (r == SStr.of("/") + rel), None
    return f
def law_norm_idem(prov):
    def f():
        p = SStr.sym("p", 5, ALPH)
        a = prov.normalize_path(p)
        b = prov.normalize_path(a)
        return (a == b), None
    return f
for name, law in [("prefix_sibling cs", law_prefix_sibling(P)), ("prefix_sibling ci", law_prefix_sibling(PI)),
                  ("join_sub cs", law_join_sub(P)), ("norm_idem ci", law_norm_idem(PI)), ("norm_idem win", law_norm_idem(PW))]:
    CTX.nq = 0; CTX.tq = 0
    leaves, dt = explore(law, limit=20000)
    c = collections.Counter(l["status"] for l in leaves)
    print(name, dict(c), "paths", len(leaves), "%.1fs" % dt, "queries", CTX.nq, "solver %.1fs" % CTX.tq)
    for l in leaves:
        if l["status"] not in ("ok", "abort"):
            print("   ", l["status"], l.get("info"), l.get("model")); break
