from lab2 import *
import cloudsync.smartsync as SS
SS.time = CLOCK
from cloudsync.smartsync import SmartCloudSync
reset()
l, r = mk(False), mk(False)
st = MockStorage({})
roots = ("/L", "/R")
cs = SmartCloudSync((l, r), roots=roots, storage=st, sleep=None); cs.aging = 0
l.mkdir("/L"); r.mkdir("/R")
r.create("/R/a", io.BytesIO(b"A")); r.mkdir("/R/d"); r.create("/R/d/b", io.BytesIO(b"B"))
l.create("/L/c", io.BytesIO(b"C"))
print("q", drain(cs)); print(tree(l, "/L"), tree(r, "/R"))
print([ (i.path, i.is_synced) for i in cs.smart_listdir_path("/L")])
cs.smart_sync_path("/R/a", 1)
print("q", drain(cs)); print(tree(l, "/L"), tree(r, "/R"))
print([ (i.path, i.is_synced) for i in cs.smart_listdir_path("/L")])
l.upload(l.info_path("/L/a").oid, io.BytesIO(b"A2"))
print(cs.smart_unsync_path("/L/a", 0) is not None)
print("q", drain(cs)); print(tree(l, "/L"), tree(r, "/R"))
print([ (i.path, i.is_synced) for i in cs.smart_listdir_path("/L")])
