import sys
sys.path.insert(0, '/repo')
from cloudsync.runnable import Runnable
class R(Runnable):
    def do(self): pass
def backoff_seq(mn: int, mx: int, k: int) -> bool:
    """
    pre: 1 <= mn <= mx <= 1000
    pre: 1 <= k <= 6
    post: _
    """
    r = R(); r.min_backoff = mn; r.max_backoff = mx; r.mult_backoff = 2
    for i in range(k):
        r._Runnable__increment_backoff()
    return r.in_backoff == min(mx, mn * 2 ** (k - 1))
