import sys, time, collections, multiprocessing as mp
sys.path.insert(0, "/verif/design_probes")
import par, e1
from par import *
def _sub2(prefix):
    t = time.time(); c = time.process_time(); r = subtree((par._FN, prefix)); return time.time() - t, time.process_time() - c, sum(r[0].values())
if __name__ == "__main__":
    fn = e1.history("oid", 2, 1, 1); par._FN = fn
    work = [[]]
    while work and len(work) < 64:
        rec, pend = run_one(fn, work.pop(0)); work.extend(pend)
    for k in (1, 4, 16):
        t1 = time.time()
        with mp.get_context("fork").Pool(k) as pool: res = pool.map(_sub2, work[:16], chunksize=1)
        print(k, "procs: pool %.1fs" % (time.time() - t1), "sum wall %.1f" % sum(r[0] for r in res), "sum cpu %.1f" % sum(r[1] for r in res), "paths", sum(r[2] for r in res))
    t1 = time.time(); res = [_sub2(w) for w in work[:16]]
    print("inline: %.1fs" % (time.time() - t1), "sum cpu %.1f" % sum(r[1] for r in res), "paths", sum(r[2] for r in res))
