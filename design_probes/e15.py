from lab2 import *
import cloudsync.smartsync as SS, traceback
SS.time = CLOCK
from cloudsync.smartsync import SmartCloudSync
viol = collections.Counter()
def wrap(name):
    orig = getattr(S.SyncState, name)
    def w(self, *a, **k):
        if not self._loading and not self.lock._is_owned():
            st = traceback.extract_stack()
            fr = [f for f in st if f.filename.startswith("/repo/")]
            pub = next((f.name for f in fr if not f.name.startswith("_")), "?")
            viol[(name, fr[0].name if fr else "?", fr[-2].name if len(fr) > 1 else "?")] += 1
        return orig(self, *a, **k)
    setattr(S.SyncState, name, w)
for n in ("updated", "storage_commit", "forget", "forget_oid", "finished", "split"): wrap(n)
reset()
l, r = mk(False), mk(False)
st = MockStorage({}); roots = ("/L", "/R")
cs = SmartCloudSync((l, r), roots=roots, storage=st, sleep=None); cs.aging = 0
l.mkdir("/L"); r.mkdir("/R")
r.create("/R/a", io.BytesIO(b"A")); r.mkdir("/R/d"); r.create("/R/d/b", io.BytesIO(b"B")); l.create("/L/c", io.BytesIO(b"C"))
drain(cs); print("after drain", dict(viol)); viol.clear()
cs.smart_sync_path("/R/a", 1); drain(cs); print("smart_sync_path", dict(viol)); viol.clear()
list(cs.smart_listdir_path("/L")); cs.smart_info_path("/L/a"); print("listdir/info", dict(viol)); viol.clear()
l.upload(l.info_path("/L/a").oid, io.BytesIO(b"A2"))
cs.smart_unsync_path("/L/a", 0); print("smart_unsync_path", dict(viol)); viol.clear()
drain(cs)
cs.smart_sync_oid(r.info_path("/R/d/b").oid); drain(cs); print("smart_sync_oid", dict(viol)); viol.clear()
cs.smart_unsync_oid(r.info_path("/R/d/b").oid); print("smart_unsync_oid", dict(viol)); viol.clear()
cs.smart_delete_path(l.info_path("/L/c").oid, "/L/c"); print("smart_delete_path", dict(viol)); viol.clear()
drain(cs); print("drain", dict(viol)); viol.clear()
cs.forget(); print("forget", dict(viol))
