from lab2 import *
import sys
def run(shape, answer, same=False, flav=(False, False), order=(0,1,2)):
    reset()
    l, r = mk(flav[0]), mk(flav[1])
    st = MockStorage({})
    roots = ("/L", "/R")
    calls = []
    class CS2(CloudSync):
        def resolve_conflict(self, f1, f2):
            d = {f1.side: f1, f2.side: f2}
            calls.append((f1.side, f1.read(), f2.side, f2.read()))
            f1.seek(0); f2.seek(0)
            if answer == "raise": raise ValueError("x")
            if answer == "none": return None
            if answer == "garbage": return 42
            if answer[0] == "pick": return (d[answer[1]], answer[2])
            if answer[0] == "merge": return (io.BytesIO(b"merged"), answer[1])
    cs = CS2((l, r), roots=roots, storage=st, sleep=None); cs.aging = 0
    l.mkdir("/L"); r.mkdir("/R")
    if shape == "edit":
        l.create("/L/a", io.BytesIO(b"base")); assert drain(cs) is not None
        l.upload(l.info_path("/L/a").oid, io.BytesIO(b"LL")); r.upload(r.info_path("/R/a").oid, io.BytesIO(b"LL" if same else b"RR"))
    else:
        l.create("/L/a", io.BytesIO(b"LL")); r.create("/R/a", io.BytesIO(b"LL" if same else b"RR"))
    q = None
    for i in range(40):
        for o in order: step(cs, o)
        if not cs.busy: q = i; break
    tl, tr = tree(l, "/L"), tree(r, "/R")
    return q, len(calls), calls[:2], tl, tr
for shape in ("create", "edit"):
    for ans in [("pick",0,True),("pick",0,False),("pick",1,True),("pick",1,False),("merge",False),("merge",True),"none","raise","garbage"]:
        try:
            print(shape, ans, run(shape, ans))
        except BaseException as e:
            import traceback; print(shape, ans, "EXC", repr(e)[:200])
    print(shape, "same", run(shape, "none", same=True))
