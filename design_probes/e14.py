from lab2 import *
from e1 import userop, FLAV
from e3 import Rec
import json, sys, itertools
PERMS = {n: list(itertools.permutations(range(n))) for n in range(1, 4)}
def mangle(prov, enabled):
    orig = prov.events
    def ev():
        batch = list(orig())
        if not enabled[0] or not batch:
            yield from batch; return
        if len(batch) <= 3 and not prov.oid_is_path:
            p = PERMS[len(batch)][choose("perm", len(PERMS[len(batch)]))]
            batch = [batch[i] for i in p]
        out = []
        for e in batch:
            out.append(e)
            if choose("dup", 2): out.append(e)
        yield from out
    prov.events = ev
def run_history(flavour, base, decisions, enabled_flag):
    pass
def history(flavour, nops, base):
    def h():
        results = []
        ops_log = []
        for mode in (0, 1):      # 0 = reference (unmangled), 1 = mangled; same user ops replayed
            reset()
            f = FLAV[flavour]
            l, r = mk(f[0]), mk(f[1]); st = MockStorage({}); roots = ("/L", "/R")
            recs = (Rec(l, "L"), Rec(r, "R"))
            en = [False]; mangle(l, en); mangle(r, en)
            cs = CloudSync((l, r), roots=roots, storage=st, sleep=None); cs.aging = 0
            l.mkdir("/L"); r.mkdir("/R")
            if base >= 1: l.create("/L/a", io.BytesIO(b"base"))
            if base >= 2: l.mkdir("/L/d")
            if drain(cs) is None: return False, "base"
            provs = (l, r)
            en[0] = bool(mode)
            for rc in recs: rc.on = True
            if mode == 0:
                for k in range(nops):
                    side = choose("side", 2)
                    d = userop(provs[side], roots[side], k, b"%d" % k)
                    ops_log.append((side, d))
                    s = choose("sch", 4); ops_log.append(s)
                    if s < 3: step(cs, s)
            else:
                it = iter(ops_log)
                for k in range(nops):
                    side, d = next(it); s = next(it)
                    redo(provs[side], roots[side], d, k)
                    if s < 3: step(cs, s)
            q = drain(cs)
            if q is None: return False, {"h": str(ops_log), "why": "noq mode %d" % mode}
            results.append((tree(l, "/L"), tree(r, "/R"), sorted(c[:2] for rc in recs for c in rc.calls)))
        ref, man = results
        same_trees = ref[0] == man[0] and ref[1] == man[1]
        extra = collections.Counter(man[2]) - collections.Counter(ref[2])
        ok = same_trees and not extra
        return ok, {"h": str(ops_log), "same": same_trees, "extra": dict((" ".join(k), v) for k, v in extra.items())}
    return h
def redo(p, root, d, k):
    tag = b"%d" % k
    try:
        if d[0] == "create": p.create(root + d[1], io.BytesIO(b"c" + tag))
        elif d[0] == "write": p.upload(p.info_path(root + d[1]).oid, io.BytesIO(b"u" + tag))
        elif d[0] in ("delete", "rmdir"): p.delete(p.info_path(root + d[1]).oid)
        elif d[0] in ("rename", "move", "rendir"): p.rename(p.info_path(root + d[1]).oid, root + d[2])
        elif d[0] == "mkdir": p.mkdir(root + d[1])
        elif d[0] == "failed":
            # re-issue the same failing op
            op = d[1]
            if op == 0: p.create(root + "/a", io.BytesIO(b"c" + tag))
    except cloudsync.CloudException: pass
if __name__ == "__main__":
    flav, nops, base = sys.argv[1], int(sys.argv[2]), int(sys.argv[3])
    leaves, dt = sx.explore(history(flav, nops, base))
    print(flav, nops, base, dict(collections.Counter(l["status"] for l in leaves)), len(leaves), "%.1fs" % dt)
    seen = collections.Counter()
    for l in leaves:
        if l["status"] != "ok":
            i = l["info"]; seen[json.dumps([i.get("h"), i.get("same"), i.get("extra")]) if isinstance(i, dict) else str(i)[-300:]] += 1
    for k, v in seen.most_common(12): print(v, k[:300])
