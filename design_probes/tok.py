import z3, sx
from sx import CTX, SBool
class Tok:
    """opaque bytes-like value: equality decided by solver; kind tags keep hash(content) apart from content"""
    def __init__(self, e, kind="c", label=None):
        self.e = e; self.kind = kind; self.label = label
    @staticmethod
    def fresh(name):
        v = z3.Int(name); CTX.vars[name] = v
        return Tok(v, "c", name)
    def __eq__(self, o):
        if isinstance(o, Tok):
            if o.kind != self.kind: return False
            return CTX.branch(self.e == o.e)
        return False
    def __ne__(self, o): return not self.__eq__(o)
    def __hash__(self): raise TypeError("Tok unhashable")
    def __bool__(self): return True
    def __len__(self): return 3
    def __radd__(self, o):
        if o == b"": return self
        if o == b"h": return Tok(self.e, "h", self.label)
        raise TypeError(o)
    def __add__(self, o):
        if o == b"": return self
        raise TypeError(o)
    def __repr__(self): return "Tok<%s:%s>" % (self.kind, self.label)
class TokFile:
    def __init__(self, t): self.t = t
    def read(self, *a): return self.t
    def seek(self, *a): return 0
    def close(self): pass
