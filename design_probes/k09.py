import sys
sys.path.insert(0, '/repo')
from cloudsync.tests.fixtures.mock_storage import MockStorage
from typing import List, Tuple
def seq(ops: List[Tuple[int, int, int, bytes]]) -> bool:
    """
    pre: len(ops) <= 3
    pre: all(0 <= o[0] <= 3 and 0 <= o[1] <= 1 and 0 <= o[2] <= 3 for o in ops)
    post: _
    """
    st = MockStorage({}); model = {}
    tags = ["t0", "t1"]
    for op, t, eid, data in ops:
        tag = tags[t]
        if op == 0:
            i = st.create(tag, data)
            if (tag, i) in model: return False
            model[(tag, i)] = data
        elif op == 1:
            try:
                st.update(tag, data, eid)
                if (tag, eid) not in model: return False
                model[(tag, eid)] = data
            except ValueError:
                if (tag, eid) in model: return False
        elif op == 2:
            st.delete(tag, eid); model.pop((tag, eid), None)
        else:
            exp = {i: d for (tg, i), d in model.items() if tg == tag}
            if st.read_all(tag) != exp: return False
    return True
