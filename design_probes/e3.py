from lab2 import *
from e1 import userop, FLAV
import json, sys
MUT = ("create", "upload", "rename", "delete", "mkdir")
class Rec:
    def __init__(self, prov, name):
        self.calls = []; self.on = False
        for m in MUT:
            orig = getattr(prov, m)
            def w(*a, _o=orig, _m=m, **k):
                if self.on: self.calls.append((name, _m) + tuple(str(x)[:20] for x in a[:2] if isinstance(x, str)))
                return _o(*a, **k)
            setattr(prov, m, w)
def history(flavour, nops, nsched, base, side):
    def h():
        reset()
        f = FLAV[flavour]
        l, r = mk(f[0]), mk(f[1]); st = MockStorage({}); roots = ("/L", "/R")
        recs = (Rec(l, "L"), Rec(r, "R"))
        cs = CloudSync((l, r), roots=roots, storage=st, sleep=None); cs.aging = 0
        l.mkdir("/L"); r.mkdir("/R")
        if base >= 1: l.create("/L/a", io.BytesIO(b"base"))
        if base >= 2: l.mkdir("/L/d")
        if drain(cs) is None: return False, "base"
        provs = (l, r); hist = []
        def estep(o):
            before = tree(provs[side], roots[side])
            for rc in recs: rc.on = True
            step(cs, o)
            for rc in recs: rc.on = False
            after = tree(provs[side], roots[side])
            return before == after
        origin_ok = True
        for k in range(nops):
            d = userop(provs[side], roots[side], k, b"%d" % k); hist.append(tuple(d))
            for j in range(nsched):
                s = choose("sch", 4)
                if s < 3: origin_ok = estep(s) and origin_ok
        for i in range(40):
            for o in (0, 1, 2): origin_ok = estep(o) and origin_ok
            if not cs.busy: break
        else: return False, {"h": hist, "why": "noq"}
        ncalls = sum(len(rc.calls) for rc in recs)
        for i in range(3):
            for o in (0, 1, 2): estep(o)
        echo = sum(len(rc.calls) for rc in recs) - ncalls
        tl, tr = tree(l, "/L"), tree(r, "/R")
        origin_calls = [c for c in recs[side].calls]
        ok = tl == tr and origin_ok and echo == 0
        return ok, {"h": hist, "mirror": tl == tr, "origin_ok": origin_ok, "echo": echo, "origin_calls": origin_calls[:4], "l": str(tl)[:200], "r": str(tr)[:200]}
    return h
if __name__ == "__main__":
    flav, nops, nsched, base, side = sys.argv[1], int(sys.argv[2]), int(sys.argv[3]), int(sys.argv[4]), int(sys.argv[5])
    leaves, dt = sx.explore(history(flav, nops, nsched, base, side))
    print(flav, nops, nsched, base, side, dict(collections.Counter(l["status"] for l in leaves)), len(leaves), "%.1fs" % dt)
    seen = collections.Counter()
    for l in leaves:
        if l["status"] != "ok":
            i = l["info"]; seen[json.dumps([i.get("h"), i.get("mirror"), i.get("origin_ok"), i.get("echo")]) if isinstance(i, dict) else str(i)[-300:]] += 1
    for k, v in seen.most_common(12): print(v, k)
    for l in leaves:
        if l["status"] != "ok": print(str(l)[:900]); break
