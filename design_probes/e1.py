from lab2 import *
import json, sys
FLAV = {"oid": (False, False), "path": (True, True), "mixed": (True, False)}
NAMES = ["/a", "/b", "/d/a"]
def userop(p, root, k, tag):
    """returns description; all ops tolerate failure"""
    op = choose("op", 8)
    try:
        if op == 0:
            n = NAMES[choose("n", 2)]; p.create(root + n, io.BytesIO(b"c" + tag)); return ("create", n)
        if op == 1:
            n = NAMES[choose("n", 2)]; i = p.info_path(root + n)
            if i and i.otype.value == "file": p.upload(i.oid, io.BytesIO(b"u" + tag)); return ("write", n)
            return ("noop",)
        if op == 2:
            n = NAMES[choose("n", 2)]; i = p.info_path(root + n)
            if i: p.delete(i.oid); return ("delete", n)
            return ("noop",)
        if op == 3:
            i = p.info_path(root + "/a")
            if i: p.rename(i.oid, root + "/b"); return ("rename", "/a", "/b")
            return ("noop",)
        if op == 4:
            p.mkdir(root + "/d"); return ("mkdir", "/d")
        if op == 5:
            i = p.info_path(root + "/d")
            if i: p.delete(i.oid); return ("rmdir", "/d")
            return ("noop",)
        if op == 6:
            i = p.info_path(root + "/a"); d = p.info_path(root + "/d")
            if i and d: p.rename(i.oid, root + "/d/a"); return ("move", "/a", "/d/a")
            return ("noop",)
        if op == 7:
            d = p.info_path(root + "/d")
            if d: p.rename(d.oid, root + "/e"); return ("rendir", "/d", "/e")
            return ("noop",)
    except cloudsync.CloudException as e:
        return ("failed", op, type(e).__name__)

def history(flavour, nops, nsched, base):
    def h():
        reset()
        f = FLAV[flavour]
        l, r = mk(f[0]), mk(f[1])
        st = MockStorage({})
        roots = ("/L", "/R")
        cs = CloudSync((l, r), roots=roots, storage=st, sleep=None); cs.aging = 0
        l.mkdir("/L"); r.mkdir("/R")
        if base >= 1: l.create("/L/a", io.BytesIO(b"base"))
        if base >= 2: l.mkdir("/L/d")
        if drain(cs) is None: return False, "base not quiescent"
        hist = []
        for k in range(nops):
            side = choose("side", 2)
            d = userop((l, r)[side], roots[side], k, b"%d" % k)
            hist.append((side,) + tuple(d))
            for j in range(nsched):
                s = choose("sch", 4)
                hist.append("s%d" % s)
                if s < 3: step(cs, s)
        q = drain(cs)
        if q is None: return False, {"h": hist, "why": "no quiescence"}
        tl, tr = tree(l, "/L"), tree(r, "/R")
        cs.done()
        nl = {k: v for k, v in tl.items() if ".conflicted" not in k}
        nr = {k: v for k, v in tr.items() if ".conflicted" not in k}
        ok = nl == nr
        return ok, {"h": hist, "l": {k: (v.decode() if v is not None else None) for k, v in tl.items()}, "r": {k: (v.decode() if v is not None else None) for k, v in tr.items()}}
    return h
if __name__ == "__main__":
    flav, nops, nsched, base = sys.argv[1], int(sys.argv[2]), int(sys.argv[3]), int(sys.argv[4])
    leaves, dt = sx.explore(history(flav, nops, nsched, base))
    c = collections.Counter(l["status"] for l in leaves)
    print(flav, nops, nsched, base, dict(c), "paths", len(leaves), "%.1fs" % dt, "queries", CTX.nq, "solver %.1fs" % CTX.tq)
    seen = collections.Counter()
    for l in leaves:
        if l["status"] in ("fail", "exc"):
            info = l["info"]
            key = json.dumps([x for x in info["h"] if not isinstance(x, str)]) if isinstance(info, dict) else str(info)
            seen[key] += 1
    for k, v in seen.most_common(40): print(v, k)
    for l in leaves:
        if l["status"] in ("fail", "exc"): print(l); break
