from lab2 import *
def acct(p):
    out = {}
    for e in p.walk("/"):
        if e.otype.value == "file":
            b = io.BytesIO(); p.download(e.oid, b); out[e.path] = b.getvalue()
        else: out[e.path] = None
    return out
for flav in [(False, False, False), (False, False, True), (True, True, False)]:
    reset()
    l, r = mk(flav[0], filter_events=flav[2]), mk(flav[1], filter_events=flav[2])
    st = MockStorage({}); roots = ("/L", "/R")
    cs = CloudSync((l, r), roots=roots, storage=st, sleep=None); cs.aging = 0
    for p, rt in ((l, "/L"), (r, "/R")):
        p.mkdir(rt); p.mkdir(rt + "x"); p.mkdir("/other")
    l.create("/L/a", io.BytesIO(b"A")); l.create("/Lx/s", io.BytesIO(b"S")); l.create("/other/o", io.BytesIO(b"O"))
    r.create("/Rx/s2", io.BytesIO(b"S2"))
    print(flav, "q", drain(cs)); print("  L", acct(l)); print("  R", acct(r))
    l.rename(l.info_path("/L/a").oid, "/other/a")      # move out
    l.rename(l.info_path("/other/o").oid, "/L/o")      # move in
    print("  q", drain(cs)); print("  L", acct(l)); print("  R", acct(r))
