from lab2 import *
from e1 import FLAV
import json, sys
# objects: file /a, file /b, folder /d (with child /d/c)
OPS = [  # (name, touched objects, fn(provider, root, tag))
    ("write a", {"a"}, lambda p, r, t: p.upload(p.info_path(r + "/a").oid, io.BytesIO(b"u" + t))),
    ("delete a", {"a"}, lambda p, r, t: p.delete(p.info_path(r + "/a").oid)),
    ("rename a->x", {"a", "x"}, lambda p, r, t: p.rename(p.info_path(r + "/a").oid, r + "/x")),
    ("write b", {"b"}, lambda p, r, t: p.upload(p.info_path(r + "/b").oid, io.BytesIO(b"u" + t))),
    ("delete b", {"b"}, lambda p, r, t: p.delete(p.info_path(r + "/b").oid)),
    ("rename b->y", {"b", "y"}, lambda p, r, t: p.rename(p.info_path(r + "/b").oid, r + "/y")),
    ("create n", {"n"}, lambda p, r, t: p.create(r + "/n", io.BytesIO(b"c" + t))),
    ("rename d->e", {"d", "e"}, lambda p, r, t: p.rename(p.info_path(r + "/d").oid, r + "/e")),
    ("delete d/c", {"d"}, lambda p, r, t: p.delete(p.info_path(r + "/d/c").oid)),
    ("mkdir m", {"m"}, lambda p, r, t: p.mkdir(r + "/m")),
    ("create m2/.. no", {"q"}, lambda p, r, t: p.create(r + "/q", io.BytesIO(b"q" + t))),
]
def history(flavour, nsched):
    def h():
        reset()
        f = FLAV[flavour]
        l, r = mk(f[0]), mk(f[1]); st = MockStorage({}); roots = ("/L", "/R")
        cs = CloudSync((l, r), roots=roots, storage=st, sleep=None); cs.aging = 0
        l.mkdir("/L"); r.mkdir("/R")
        l.create("/L/a", io.BytesIO(b"A")); l.create("/L/b", io.BytesIO(b"B")); l.mkdir("/L/d"); l.create("/L/d/c", io.BytesIO(b"C"))
        if drain(cs) is None: return False, "base"
        model = tree(l, "/L")
        i0 = sym_int("opL", 0, len(OPS) - 1); i1 = sym_int("opR", 0, len(OPS) - 1)
        # solver constraint: disjoint object sets
        bad = [z3.And(i0.e == a, i1.e == b) for a in range(len(OPS)) for b in range(len(OPS)) if OPS[a][1] & OPS[b][1]]
        CTX.assume(z3.Not(z3.Or(bad)))
        a, b = int(i0), int(i1)
        first = choose("first", 2)
        order = [(0, a), (1, b)] if first == 0 else [(1, b), (0, a)]
        hist = []
        ref = mk(False); ref.mkdir("/M")
        for k, v in sorted(model.items(), key=lambda kv: kv[0]):
            if v is None: ref.mkdir("/M" + k)
            else: ref.create("/M" + k, io.BytesIO(v))
        for side, op in order:
            OPS[op][2]((l, r)[side], roots[side], b"%d" % side); OPS[op][2](ref, "/M", b"%d" % side)
            hist.append((side, OPS[op][0]))
            for j in range(nsched):
                s = choose("sch", 4)
                if s < 3: step(cs, s)
        if drain(cs) is None: return False, {"h": hist, "why": "noq"}
        tl, tr, tm = tree(l, "/L"), tree(r, "/R"), tree(ref, "/M")
        ok = tl == tm and tr == tm
        return ok, {"h": hist, "l": str(tl), "r": str(tr), "m": str(tm)}
    return h
if __name__ == "__main__":
    flav, nsched = sys.argv[1], int(sys.argv[2])
    leaves, dt = sx.explore(history(flav, nsched))
    print(flav, nsched, dict(collections.Counter(l["status"] for l in leaves)), len(leaves), "%.1fs" % dt)
    seen = collections.Counter()
    for l in leaves:
        if l["status"] != "ok":
            i = l["info"]; seen[json.dumps(i.get("h")) if isinstance(i, dict) else str(i)[-300:]] += 1
    for k, v in seen.most_common(12): print(v, k[:300])
    for l in leaves:
        if l["status"] != "ok": print(str(l)[:900]); break
