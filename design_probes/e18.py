import sys, logging, collections
sys.path.insert(0, '/repo'); sys.path.insert(0, '/verif/design_probes')
logging.disable(logging.CRITICAL)
import z3, sx
from sx import CTX, SInt, SBool
from sreal import SReal, _r
import cloudsync.runnable as RN
class Clock:
    t = 0.0
    @staticmethod
    def monotonic(): Clock.t += 1; return Clock.t
    @staticmethod
    def sleep(s): pass
RN.time = Clock
def zmin(a, b): return z3.If(a <= b, a, b)
def h(K):
    def f():
        mn, mx, mult = z3.Reals("mn mx mult")
        for v in (mn, mx, mult): CTX.vars[str(v)] = v
        CTX.assume(z3.And(mn > 0, mx >= mn, mult >= 1))
        sleeps = []; calls = []; outcomes = []
        class Svc(RN.Runnable):
            def do(self):
                k = len(calls); calls.append(k)
                o = int(SInt(z3.Int("o%d" % k))) if False else outcomes[k]
                if o == 1: self.nothing_happened()
                elif o == 2: self.backoff()
                elif o == 3: raise ValueError("boom")
            def interruptable_sleep(self, secs): sleeps.append(secs)
            def done(self): calls.append("done")
        svc = Svc(); svc.min_backoff = SReal(mn); svc.max_backoff = SReal(mx); svc.mult_backoff = SReal(mult)
        for k in range(K):
            v = z3.Int("out%d" % k); CTX.vars[str(v)] = v; CTX.assume(z3.And(v >= 0, v <= 3)); outcomes.append(int(SInt(v)))
        n = [0]
        def until():
            n[0] += 1; return n[0] >= K
        SLEEP = 0.25
        svc.run(until=until, sleep=SLEEP)
        # oracle
        fails = 0; ok = True; cur = None  # cur: expected in_backoff as z3 real (None = 0)
        for k in range(K - 1):            # last iteration breaks before sleeping
            o = outcomes[k]
            if o in (2, 3):
                fails += 1
                exp = mn
                for _ in range(fails - 1): exp = exp * mult
                exp = zmin(mx, exp); cur = exp
            elif o == 0:
                fails = 0; cur = None
            # o == 1: unchanged
            got = sleeps[k]
            if cur is None:
                ok = ok and (not isinstance(got, SReal)) and got == SLEEP
            else:
                ok = ok and isinstance(got, SReal) and CTX.check(got.e != cur) == z3.unsat
        ok = ok and len([c for c in calls if c != "done"]) == K
        return ok, {"out": outcomes}
    return f
for K in (3, 5):
    CTX.nq = 0; CTX.tq = 0
    leaves, dt = sx.explore(h(K))
    print("K", K, dict(collections.Counter(l["status"] for l in leaves)), len(leaves), "%.1fs" % dt, CTX.nq, "solver %.1fs" % CTX.tq)
    for l in leaves:
        if l["status"] != "ok": print(str(l)[:800]); break
