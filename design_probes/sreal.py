import z3, sx
from sx import CTX, SBool, SInt
from fractions import Fraction
def _r(o):
    if isinstance(o, SReal): return o.e
    if isinstance(o, SInt): return z3.ToReal(o.e)
    if isinstance(o, bool): return z3.RealVal(int(o))
    if isinstance(o, int): return z3.RealVal(o)
    if isinstance(o, float): return z3.RealVal(repr(o))
    raise TypeError(type(o))
class SReal:
    def __init__(self, e): self.e = e
    def _c(self, o, f):
        try: return SBool(f(self.e, _r(o)))
        except TypeError: return NotImplemented
    def __eq__(self, o):
        try: return SBool(self.e == _r(o))
        except TypeError: return False
    def __ne__(self, o):
        try: return SBool(self.e != _r(o))
        except TypeError: return True
    def __lt__(self, o): return self._c(o, lambda a, b: a < b)
    def __le__(self, o): return self._c(o, lambda a, b: a <= b)
    def __gt__(self, o): return self._c(o, lambda a, b: a > b)
    def __ge__(self, o): return self._c(o, lambda a, b: a >= b)
    def __add__(self, o): return SReal(self.e + _r(o))
    __radd__ = __add__
    def __sub__(self, o): return SReal(self.e - _r(o))
    def __rsub__(self, o): return SReal(_r(o) - self.e)
    def __mul__(self, o): return SReal(self.e * _r(o))
    __rmul__ = __mul__
    def __truediv__(self, o): return SReal(self.e / _r(o))
    def __bool__(self): return CTX.branch(self.e != 0)
    __hash__ = None
    def __repr__(self): return "SReal(%s)" % self.e
