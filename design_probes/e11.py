from lab2 import *
from cloudsync.sync.state import SyncState, SyncEntry
from cloudsync.types import FILE, DIRECTORY, IgnoreReason
import sys
OIDS = ["o1", "o2", "o3"]
PATHS = [None, "/a", "/b", "/a/c"]
def inv(st):
    live = st.get_all(discarded=True)
    for side in (0, 1):
        owners = {}
        for oid, ent in st._oids[side].items():
            assert ent[side].oid == oid, "oid index stale: %s -> ent with %s" % (oid, ent[side].oid)
        for path, d in st._paths[side].items():
            assert d, "empty bucket %s" % path
            for oid, ent in d.items():
                assert ent[side].path == path and ent[side].oid == oid, "path index stale (%s,%s) -> (%s,%s)" % (path, oid, ent[side].path, ent[side].oid)
                assert st._oids[side].get(oid) is ent, "path slot not in oid index"
        for ent in live:
            if ent[side].oid is not None:
                assert st._oids[side].get(ent[side].oid) is ent, "live ent not under its oid"
                if ent[side].path:
                    assert st._paths[side].get(ent[side].path, {}).get(ent[side].oid) is ent, "live ent not under its path"
    expect = set(e for e in live if any(e[s].changed and e[s].oid is not None for s in (0, 1)))
    got = set(st._changeset_storage)
    assert got == expect, "pending set mismatch: extra=%d missing=%d" % (len(got - expect), len(expect - got))
def h(nops, oid_is_path):
    def f():
        reset()
        provs = (mk(oid_is_path), mk(oid_is_path))
        st = SyncState(provs)
        hist = []
        for k in range(nops):
            op = choose("op", 4)
            side = choose("side", 2)
            if op <= 1:   # event
                oid = OIDS[choose("oid", 3)]; path = PATHS[choose("path", 4)]
                exists = [True, False, None][choose("ex", 3)]
                prior = [None] + OIDS; prior = prior[choose("prior", 4 if oid_is_path else 1)]
                otype = (FILE, DIRECTORY)[op]
                hist.append(("event", side, otype.value, oid, path, exists, prior))
                st.update(side, otype, oid, path=path, hash=b"h%d" % k, exists=exists, prior_oid=prior)
            elif op == 2:
                ents = sorted(st.get_all(discarded=True), key=lambda e: e._hseq)
                if not ents: return True, None
                e = ents[choose("ent", len(ents))]
                what = choose("what", 4)
                hist.append(("assign", e._hseq, side, what))
                if what == 0: e[side].changed = 0
                elif what == 1: e.ignore(IgnoreReason.DISCARDED)
                elif what == 2:
                    if e[side].oid: e[side].path = PATHS[1 + choose("np", 3)]
                elif what == 3: e[side].oid = OIDS[choose("no", 3)]
            elif op == 3:
                ents = sorted([e for e in st.get_all() if e[0].oid], key=lambda e: e._hseq)
                if not ents: return True, None
                e = ents[choose("ent", len(ents))]
                hist.append(("split", e._hseq)); st.split(e)
            try: inv(st)
            except AssertionError as e: return False, {"h": hist, "why": str(e)}
        return True, None
    return f
n = int(sys.argv[1]); oip = sys.argv[2] == "path"
leaves, dt = sx.explore(h(n, oip))
print(collections.Counter(l["status"] for l in leaves), len(leaves), "%.1fs" % dt, CTX.nq)
seen = collections.Counter((l["info"]["why"] if isinstance(l["info"], dict) else str(l["info"])[-400:]) for l in leaves if l["status"] != "ok")
for k, v in seen.most_common(10): print(v, k)
for l in leaves:
    if l["status"] == "fail": print(l["info"]); break
