"""C16(a) probe: fs fast-hash kernel over index intervals (LIA)"""
import sys, logging, collections
sys.path.insert(0, '/repo'); sys.path.insert(0, '/verif/design_probes')
logging.disable(logging.CRITICAL)
import z3, sx
from sx import CTX, SInt, SBool
import cloudsync.providers.filesystem as FS

class Seg:
    """bytes-like: concatenation of file intervals [a,b) (symbolic ints)"""
    def __init__(self, parts): self.parts = [p for p in parts]
    def __add__(self, o):
        if isinstance(o, bytes) and o == b"": return self
        return Seg(self.parts + o.parts)
    def __radd__(self, o):
        assert o == b""; return self
    def __bool__(self):
        # non-empty iff some part has b>a
        return CTX.branch(z3.Or([b > a for a, b in self.parts])) if self.parts else False
    def __len__(self): raise TypeError
class SymFile:
    def __init__(self, L): self.L = L; self.pos = z3.IntVal(0)
    def seek(self, off, whence=0):
        off = off.e if isinstance(off, SInt) else z3.IntVal(off)
        if whence == 0: self.pos = off
        elif whence == 2: self.pos = self.L + off
        else: raise NotImplementedError
        return SInt(self.pos)
    def tell(self): return SInt(self.pos)
    def read(self, n=None):
        if n is None: end = self.L
        else:
            n = n.e if isinstance(n, SInt) else z3.IntVal(n)
            end = z3.If(self.pos + n < self.L, self.pos + n, self.L)
        start = z3.If(self.pos < self.L, self.pos, self.L)
        s = Seg([(start, end)]); self.pos = end
        return s
FED = []
def fake_get_hash(dat):
    if hasattr(dat, "read"):
        FED.append(("file", dat.pos, dat.L)); return ("H", len(FED) - 1)
    FED.append(("bytes", dat.parts)); return ("H", len(FED) - 1)
FS.get_hash = fake_get_hash
def covers(parts, L):
    """z3: the concatenation of parts == [0,L) in order (empty parts allowed)"""
    cur = z3.IntVal(0); conj = []
    for a, b in parts:
        conj.append(z3.Or(b <= a, z3.And(a == cur)))   # non-empty part must start where we are
        cur = z3.If(b > a, b, cur)
    conj.append(cur == L)
    return z3.And(conj)
def h(bound):
    def f():
        FED.clear()
        L = z3.Int("L"); CTX.vars["L"] = L; CTX.assume(L >= 0)
        if bound: CTX.assume(L <= bound)
        fh, final = FS.FileSystemProvider._fast_hash_data(SymFile(L))
        kind, parts = FED[0][0], FED[0][1]
        # hash_data returns fh regardless of final; info hash = full hash when not final
        claim = covers(parts, L)
        ok = CTX.check(z3.Not(claim)) == z3.unsat
        return ok, {"final": bool(final)}
    return f
for bound in (2048, None):
    leaves, dt = sx.explore(h(bound))
    print("bound", bound, collections.Counter((l["status"], str(l.get("info")), str(l.get("model"))) for l in leaves), "%.2fs" % dt, CTX.nq)
