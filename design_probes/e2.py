from lab2 import *
from e1 import FLAV
import json, sys
def content_at(p, path):
    i = p.info_path(path)
    if not i or i.otype.value != "file": return None
    b = io.BytesIO(); p.download(i.oid, b); return b.getvalue()
def history(flavour, nops, nsched, base):
    def h():
        reset()
        f = FLAV[flavour]
        l, r = mk(f[0]), mk(f[1]); st = MockStorage({}); roots = ("/L", "/R")
        cs = CloudSync((l, r), roots=roots, storage=st, sleep=None); cs.aging = 0
        l.mkdir("/L"); r.mkdir("/R")
        live = set()
        if base: l.create("/L/a", io.BytesIO(b"v0")); live.add(b"v0")
        if drain(cs) is None: return False, "base"
        provs = (l, r); hist = []
        for k in range(nops):
            side = choose("side", 2); p = provs[side]; path = roots[side] + "/a"
            op = choose("op", 3); v = b"v%d" % (k + 1)
            cur = content_at(p, path)
            try:
                if op == 0:
                    if p.info_path(path) is None:
                        p.create(path, io.BytesIO(v)); live.add(v); hist.append((side, "create"))
                    else: hist.append((side, "noop"))
                elif op == 1:
                    if cur is not None:
                        p.upload(p.info_path(path).oid, io.BytesIO(v)); live.discard(cur); live.add(v); hist.append((side, "write"))
                    else: hist.append((side, "noop"))
                elif op == 2:
                    if cur is not None:
                        p.delete(p.info_path(path).oid); live.discard(cur); hist.append((side, "delete"))
                    else: hist.append((side, "noop"))
            except cloudsync.CloudException as e: hist.append((side, "failed"))
            for j in range(nsched):
                s = choose("sch", 4); hist.append("s%d" % s)
                if s < 3: step(cs, s)
        if drain(cs) is None: return False, {"h": hist, "why": "noq"}
        tl, tr = tree(l, "/L"), tree(r, "/R")
        present = set(v for v in list(tl.values()) + list(tr.values()) if v is not None)
        lost = sorted(x.decode() for x in live - present)
        nl = {k: v for k, v in tl.items() if ".conflicted" not in k}; nr = {k: v for k, v in tr.items() if ".conflicted" not in k}
        ok = not lost
        return ok, {"h": hist, "lost": lost, "conv": nl == nr, "l": str(tl), "r": str(tr)}
    return h
if __name__ == "__main__":
    flav, nops, nsched, base = sys.argv[1], int(sys.argv[2]), int(sys.argv[3]), int(sys.argv[4])
    leaves, dt = sx.explore(history(flav, nops, nsched, base))
    print(flav, nops, nsched, base, dict(collections.Counter(l["status"] for l in leaves)), len(leaves), "%.1fs" % dt, "nonconv", sum(1 for l in leaves if isinstance(l.get("info"), dict) and l["info"].get("conv") is False))
    seen = collections.Counter()
    for l in leaves:
        if l["status"] != "ok":
            i = l["info"]; seen[json.dumps([[x for x in i.get("h") if not isinstance(x, str)], i.get("lost")]) if isinstance(i, dict) else str(i)[-300:]] += 1
    for k, v in seen.most_common(12): print(v, k[:300])
    for l in leaves:
        if l["status"] != "ok": print(str(l)[:900]); break
