"""EngineLab prototype on top of sx (re-exec DFS)."""
import sys, io, logging, collections, time as _time
sys.path.insert(0, '/repo'); sys.path.insert(0, '/verif/design_probes')
logging.disable(logging.CRITICAL)
import cloudsync.utils as U
U.debug_sig = lambda t, size=3: "x"
import cloudsync
import cloudsync.sync.state as S, cloudsync.sync.manager as M, cloudsync.cs as CS, cloudsync.providers.mock as MK, cloudsync.event as EV, cloudsync.runnable as RN, cloudsync.provider as PV
for m in (S, M, CS, MK): m.debug_sig = U.debug_sig
import z3, sx
from sx import CTX, SInt, SBool

class Clock:
    def __init__(self): self.t = 1000.0
    def time(self):
        self.t += 1.0; return self.t
    monotonic = time
    def sleep(self, s): self.t += s
CLOCK = Clock()
for m in (S, M, MK, EV, RN, PV): m.time = CLOCK

class MemFS:
    files = {}
class _W:
    def __init__(self, name, mode):
        self.name = name; self.mode = mode
        self.data = MemFS.files[name] if 'r' in mode else b""
        self.pos = 0
    def write(self, b): self.data = self.data + b; return len(b)
    def read(self, *a):
        if self.pos == 0:
            self.pos = len(self.data); return self.data
        return b""
    def seek(self, p, whence=0):
        self.pos = p if whence == 0 else len(self.data); return self.pos
    def tell(self): return self.pos
    def close(self):
        if 'w' in self.mode: MemFS.files[self.name] = self.data
    def __enter__(self): return self
    def __exit__(self, *a): self.close()
def fopen(name, mode="r"):
    if 'r' in mode and name not in MemFS.files: raise FileNotFoundError(name)
    return _W(name, mode)
class _Path:
    exists = staticmethod(lambda p: p in MemFS.files or p == "/T")
    join = staticmethod(lambda a, b: a + "/" + b)
    dirname = staticmethod(lambda p: p.rsplit("/", 1)[0])
class FakeOs:
    path = _Path; SEEK_END = 2; _n = [0]
    rename = staticmethod(lambda a, b: MemFS.files.__setitem__(b, MemFS.files.pop(a)))
    @staticmethod
    def unlink(a):
        if a not in MemFS.files: raise FileNotFoundError(a)
        del MemFS.files[a]
    mkdir = staticmethod(lambda a: None)
    @staticmethod
    def urandom(n):
        FakeOs._n[0] += 1; return FakeOs._n[0].to_bytes(n, 'big')
class FakeTempfile: mkdtemp = staticmethod(lambda suffix="": "/T")
class FakeShutil: rmtree = staticmethod(lambda p: None)
M.os = FakeOs; M.open = fopen; M.tempfile = FakeTempfile; M.shutil = FakeShutil; S.os = FakeOs; MK.os = FakeOs
def _tup(x):
    if isinstance(x, (list, tuple)): return tuple(_tup(i) for i in x)
    if isinstance(x, dict): return {k: _tup(v) for k, v in x.items()}
    return x
class Blob:
    def __init__(self, d): self.d = d
class StMsgpack:
    dumps = staticmethod(lambda d, **kw: Blob(_tup(d)))
    loads = staticmethod(lambda b, **kw: _tup(b.d))
class MgrMsgpack:
    dumps = staticmethod(lambda h, **kw: h if isinstance(h, bytes) else repr(h).encode())
_INTERN = []
class FakeHashlib:
    class _H:
        def __init__(self, b): self.b = b
        def digest(self): return self
        def hex(self):
            for i, k in enumerate(_INTERN):
                if k == self.b: return "t%d" % i
            _INTERN.append(self.b); return "t%d" % (len(_INTERN) - 1)
    md5 = staticmethod(lambda b: FakeHashlib._H(b))
S.msgpack = StMsgpack; M.msgpack = MgrMsgpack; M.hashlib = FakeHashlib
# deterministic entry hashing (creation order)
_SEQ = [0]
_orig_init = S.SyncEntry.__init__
def _init(self, *a, **k):
    _SEQ[0] += 1; object.__setattr__(self, "_hseq", _SEQ[0]); _orig_init(self, *a, **k)
S.SyncEntry.__init__ = _init
S.SyncEntry.__hash__ = lambda self: self._hseq
_oid = [0]
_orig_fso = MK.MockFSObject.__init__
def _fso(self, path, object_type, oid_is_path, hash_func, contents=None, mtime=None):
    _orig_fso(self, path, object_type, oid_is_path, hash_func, contents, mtime)
    if not oid_is_path:
        _oid[0] += 1; self.oid = "id%d" % _oid[0]
MK.MockFSObject.__init__ = _fso

from cloudsync import CloudSync, MockProvider
from cloudsync.tests.fixtures.mock_storage import MockStorage

def reset():
    _INTERN.clear(); MemFS.files.clear(); CLOCK.t = 1000.0; FakeOs._n[0] = 0; _SEQ[0] = 0; _oid[0] = 0
    EV.EventManager._provider_guard.clear()
def mk(oid_is_path, case_sensitive=True, filter_events=False):
    p = MockProvider(oid_is_path=oid_is_path, case_sensitive=case_sensitive, filter_events=filter_events, hash_func=lambda b: b"h" + b)
    p.connect({"key": "val"}); return p
def step(cs, o):
    try:
        if o == 2: cs.smgr.do()
        else: cs.emgrs[o].do()
    except RN._BackoffError: pass
def drain(cs, maxrounds=40):
    for i in range(maxrounds):
        for o in (0, 1, 2): step(cs, o)
        if not cs.busy: return i
    return None
def tree(p, root):
    out = {}
    for e in p.walk(root):
        rel = e.path[len(root):]
        if e.otype.value == "file":
            b = io.BytesIO(); p.download(e.oid, b); out[rel] = b.getvalue()
        else: out[rel] = None
    return out
def sym_int(name, lo, hi):
    v = z3.Int(CTX.fresh(name)); CTX.assume(z3.And(v >= lo, v <= hi)); CTX.vars[str(v)] = v
    return SInt(v)
def choose(name, n): return int(sym_int(name, 0, n - 1))
