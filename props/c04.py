"""C04 non-conflicting concurrent changes merge exactly (no resurrection / duplication)"""
from props import _lab
from props._lab import Lab, SymEnv, base_tree, show, apply_op
from props._hist import History, Fail, result_fail, sig_from_rec, std_replay

PROP = "C04"
LEVEL = "other"
SELFTEST_PARTS = ("num",)
WALL_BUDGET = {"quick": 3600, "thorough": 14400}
# (kind, src, dst, objects touched - closed under ancestor/descendant: anything under /d touches d)
OPS = [
    ("write", "/a", None, {"a"}), ("delete", "/a", None, {"a"}), ("rename", "/a", "/x", {"a", "x"}),
    ("write", "/b", None, {"b"}), ("delete", "/b", None, {"b"}), ("rename", "/b", "/y", {"b", "y"}),
    ("create", "/n", None, {"n"}), ("mkdir", "/m", None, {"m"}),
    ("rendir", "/d", "/e", {"d", "e"}), ("delete", "/d/a", None, {"d"}), ("create", "/d/n", None, {"d"}), ("mkdir", "/d/s", None, {"d"}),
    ("rename", "/b", "/d/b", {"b", "d"}), ("write", "/d/a", None, {"d"}),
    ("mkdir", "/d", None, {"d"}), ("rename", "/e/a", "/d/a", {"d", "e"}),          # re-using a renamed folder's old name
    ("rendir", "/d", "/m/d", {"d", "m"}), ("rendir", "/m", "/d", {"d", "m"}),        # moving a folder into another one, then that one onto the vacated name
    ("delete", "/e/a", None, {"d", "e"}), ("rmdir", "/e", None, {"d", "e"}),          # emptying and removing a renamed folder
    ("rename", "/x", "/a", {"a", "x"}),                                               # renaming back
    ("mkdir", "/d/t", None, {"d"}), ("mkdir", "/d/t/k", None, {"d"}),                 # a folder two levels below a folder that is renamed next
    ("rename", "/a", "/b", {"a", "b"}),                                               # onto a name freed by an earlier (synchronised) deletion
]


def ref_apply(tree, kind, src, dst, content):
    """pure reference semantics on {path: bytes|None}; mirrors apply_op's applicability rules"""
    def par(p):
        q = p.rsplit("/", 1)[0]
        return q
    if kind == "create":
        if src in tree or (par(src) and tree.get(par(src), 0) is not None):
            return
        tree[src] = content
    elif kind == "write":
        if tree.get(src) is None:
            return
        tree[src] = content
    elif kind == "delete":
        if tree.get(src) is None:
            return
        del tree[src]
    elif kind == "mkdir":
        if src in tree or (par(src) and tree.get(par(src), 0) is not None):
            return
        tree[src] = None
    elif kind == "rmdir":
        if src not in tree or tree[src] is not None or any(k.startswith(src + "/") for k in tree):
            return
        del tree[src]
    elif kind in ("rename", "rendir"):
        if src not in tree or dst in tree or (tree[src] is None) != (kind == "rendir"):
            return
        if par(dst) and tree.get(par(dst), 0) is not None:
            return
        moved = [(k, v) for k, v in tree.items() if k == src or k.startswith(src + "/")]
        for k, v in moved:
            del tree[k]
        for k, v in moved:
            tree[dst + k[len(src):]] = v


def _factory(params, env=None):
    def fn():
        e = env or SymEnv()
        _lab.reset()
        lab = Lab(params["flavour"])
        if base_tree(lab, params.get("base", 3)) is None:
            return {"ok": False, "info": {"why": "base tree did not become quiet"}, "sigdata": {"symptom": "base-not-quiet"}}
        nl, nr = params["nl"], params["nr"]
        # the two sides' operation indices stay symbolic until the disjointness constraint is asserted
        pre = params.get("prefixL") or []
        npool = params.get("pool") or len(OPS)
        vl = [e.var("opL", 0, npool - 1) for _ in range(nl)]
        for v_, want in zip(vl, pre):
            e.assume(v_ == want) if e.symbolic else None
        vr = [e.var("opR", 0, npool - 1) for _ in range(nr)]
        for v_, want in zip(vr, params.get("prefixR") or []):
            e.assume(v_ == want) if e.symbolic else None
        if e.symbolic:
            import z3
            bad = []
            for a in vl:
                for b in vr:
                    for i, oi in enumerate(OPS):
                        for j, oj in enumerate(OPS):
                            if oi[3] & oj[3]:
                                bad.append(z3.And(a.e == i, b.e == j))
            e.assume(z3.Not(z3.Or(bad)))
            il = [int(v) for v in vl]
            ir = [int(v) for v in vr]
        else:
            il, ir = list(vl), list(vr)
            for a in il:
                for b in ir:
                    if OPS[a][3] & OPS[b][3]:
                        raise _lab.ConcreteEnv.Mismatch("disjointness constraint violated on replay")
        # interleaving of the two sequences: position of each remote operation among the local ones
        seq = [(0, i) for i in il]
        if params.get("order"):
            li, ri = iter(il), iter(ir)
            seq = [(0, next(li)) if c == "L" else (1, next(ri)) for c in params["order"]]
        else:
            for j in ir:
                pos = e.choose("pos", len(seq) + 1)
                seq.insert(pos, (1, j))
        ref = dict(lab.tree(0))
        h = History(lab, e)
        h.mode = params.get("slotmode")
        try:
            for k, (side, i) in enumerate(seq):
                kind, src, dst, _ = OPS[i]
                content = b"v%d" % k
                d = apply_op(lab, side, kind, src, dst, content)
                h.hist.append((side,) + tuple(d))
                if d[0] not in ("noop", "failed"):
                    h.real_ops += 1
                    ref_apply(ref, kind, src, dst, content)
                h.gap(params["slotsper"][k] if params.get("slotsper") else params["slots"])
            h.drain()
            tl, tr = lab.tree(0), lab.tree(1)
            if tl != ref or tr != ref:
                sym = "not-merged"
                names = set(tl) | set(tr)
                if any(".conflicted" in k for k in names):
                    sym = "conflicted-artefact"
                raise Fail("quiet-state trees differ from base + both sides' changes", local=show(tl), remote=show(tr), expected=show(ref), symptom=sym)
        except Fail as f:
            return result_fail(h, f, params)
        finally:
            lab.stop_engine()
        return {"ok": True, "key": repr(h.hist), "nontrivial": h.real_ops >= 2}
    return fn


HARNESSES = {"merge": _factory}


def replay(harness, params, model):
    return std_replay(_factory, harness, params, model)


def signature(harness, params, rec):
    sd = sig_from_rec(params, rec)
    info = rec.get("info") or {}
    if info.get("symptom"):
        sd["symptom"] = info["symptom"]
    elif isinstance(sd.get("symptom"), str) and sd["symptom"].startswith("engine not quiet"):
        sd["symptom"] = "no-quiescence"
    return sd


def jobs(tier):
    q = tier == "quick"
    out = []
    if q:
        combos = [(f, 1, 1, 1) for f in ("oid", "path")] + [(f, 2, 1, 0) for f in ("oid",)]
    else:
        combos = [("oid", 1, 1, 1), ("path", 1, 1, 1), ("mixed", 1, 1, 1), ("oid-ci", 1, 1, 1), ("oid", 2, 1, 0)]
    # focused families; quick: the other side does one fixed unrelated thing (create /n); thorough: anything disjoint
    pr = {"prefixR": [6], "pool": 18}        # (the other side creates /n; letting it do anything disjoint made the thorough run exceed 50 minutes)
    pr4 = {"prefixR": [6]}
    if q:
        pr["pool"] = 18
    for f in ("oid", "path"):
        if f == "oid" or not q:
            # one side renames a folder and keeps working under both names (3 operations)
            out.append({"harness": "merge", "params": dict(pr, flavour=f, nl=3, nr=1, slots=0, prefixL=[8]), "label": "%s/3+1-ops/0-slots/first=rendir-d-e" % f})
        # a new folder, the old one moved into it, the vacated name re-used
        out.append({"harness": "merge", "params": dict(pr, flavour=f, nl=3, nr=1, slots=0, prefixL=[7]), "label": "%s/3+1-ops/0-slots/first=mkdir-m" % f})
        # two synchronised folders: one is moved into the other, which then takes the vacated name
        sl = 1 if (f == "oid" or not q) else 0
        out.append({"harness": "merge", "params": dict(pr4, flavour=f, base=4, nl=2, nr=1, slots=sl, prefixL=[16]), "label": "%s/base4/2+1-ops/%d-slot/first=rendir-d-m" % (f, sl)})
    # fixed stories on one side under deeper schedules (slots after each position of the interleaved sequence); the other side creates /n
    for f in ("oid", "path", "mixed"):
        out.append({"harness": "merge", "params": dict(flavour=f, nl=3, nr=1, slots=0, slotsper=[1, 1, 1, 1], prefixL=[8, 18, 19], prefixR=[6]),
                    "label": "%s/story=folder-renamed-emptied-removed" % f})
        out.append({"harness": "merge", "params": dict(flavour=f, nl=2, nr=1, slots=0, slotsper=[2, 1, 1], prefixL=[2, 20], prefixR=[6]),
                    "label": "%s/story=renamed-and-back" % f})
        out.append({"harness": "merge", "params": dict(flavour=f, nl=3, nr=1, slots=0, slotsper=["Q", 0, 1, 1], prefixL=[21, 22, 8], prefixR=[6], order="LLLR"),
                    "label": "%s/story=deep-new-folder-then-top-folder-renamed" % f})
        out.append({"harness": "merge", "params": dict(flavour=f, nl=2, nr=1, slots=0, slotsper=["Q", 2, 1], prefixL=[4, 23], prefixR=[6], order="LLR"),
                    "label": "%s/story=renamed-onto-a-name-freed-by-a-synchronised-deletion" % f})
    for f, nl, nr, sl in combos:
        p = {"flavour": f, "nl": nl, "nr": nr, "slots": sl}
        if not q:
            p["pool"] = 16 if (nl, nr) == (2, 1) else 18
        if sl == "round":
            p.update(slots=1, slotmode="round")
        if q:
            p["pool"] = 16         # the generic quick families leave the two folder-into-folder moves to the focused families above
        out.append({"harness": "merge", "params": p, "label": "%s/%d+%d-ops/%s-slots" % (f, nl, nr, sl)})
    return out


def meta(tier):
    return {
        "explanation": "M2 with a solver-expressed family constraint: base tree with two files and a folder with a child; each side gets a sequence of operations whose indices are z3 "
                       "integers constrained so that the object sets touched by the two sides (closed under ancestor/descendant) are disjoint; z3 enumerates the satisfying assignments, "
                       "all interleavings of the two sequences and all schedule slots; the real engine runs on each and both quiet-state trees must equal a pure reference tree "
                       "(base + both deltas), with no '.conflicted' name.",
        "bounds": {"operations": [o[:3] for o in OPS], "per side": "quick: 1+1 (2 flavours) and 2+1 (object ids) over the first 16 operations; focused 3+1 families (folder renamed and both names used; new folder, folder moved into it, name re-used) and 2+1 from a base with two synchronised folders, all 18 operations; thorough: the quick families plus 1+1 over all 18 operations on 4 flavours (larger 2+1 / 2+2 families ran for more than 50 minutes because of the per-path cost of the constraint and were dropped); the focused families with any disjoint operation on the other side", "slots": "1 (2)"},
        "symbolic": ["operation indices per side under the disjointness constraint", "interleaving positions", "schedule slots"],
        "outside": ["longer sequences", "other base trees", "quick: the generic families leave out the two folder-into-folder moves"],
        "stubs": ["engine lab determinisation"],
        "assumptions": ["MockProvider is a faithful provider"],
    }
