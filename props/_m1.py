"""shared plumbing for through-flow (M1) harnesses: a *law* is an ordinary Python function over the
real code; it runs unchanged on symbolic proxies (solver decides its branches) and on concrete
values (replay).  law(...) returns True (holds), False (violated) or None (precondition not met)."""
import os
import sys
import traceback

REPO = os.environ.get("VERIF_REPO", "/repo")


def quiet_repo():
    """environment stubs every harness needs: logging off, debug_sig constant (log formatting only;
    with the pinned xxhash the real one raises TypeError on str input)"""
    import logging
    logging.disable(logging.CRITICAL)
    import cloudsync.utils as U
    U.debug_sig = lambda t, size=3: "x"
    for name, m in list(sys.modules.items()):
        if name.startswith("cloudsync") and m is not None and hasattr(m, "debug_sig"):
            m.debug_sig = U.debug_sig


def exc_site(tb=None):
    """innermost cloudsync frame of the current exception: 'file:function'"""
    tb = tb or sys.exc_info()[2]
    site = None
    for fr, _ in traceback.walk_tb(tb):
        fn = fr.f_code.co_filename
        if "/cloudsync/" in fn and "/tests/" not in fn:
            site = "%s:%s" % (os.path.basename(fn), fr.f_code.co_name)
    return site


def path_key():
    from symx.core import CTX
    return "".join("1" if d else "0" for d, _ in CTX.trace)


def run_law(law, args, kwargs=None):
    """symbolic-side wrapper: result record for symx.run_path"""
    try:
        r = law(*args, **(kwargs or {}))
    except Exception as e:
        from symx.core import CTX
        rec = {"ok": False, "info": {"exc": type(e).__name__, "at": exc_site(), "msg": str(e)[:200]},
               "symptom": type(e).__name__, "at": exc_site()}
        return rec
    if r is None:
        return {"ok": True, "nontrivial": False, "key": None}
    if isinstance(r, tuple):
        ok, why = r
    else:
        ok, why = r, None
    if ok:
        return {"ok": True, "nontrivial": True, "key": path_key()}
    return {"ok": False, "info": {"why": why}, "symptom": "law-false", "at": why}


def replay_law(law, args, kwargs=None):
    """concrete-side wrapper"""
    try:
        r = law(*args, **(kwargs or {}))
    except Exception as e:
        return {"reproduced": True, "symptom": type(e).__name__, "at": exc_site(),
                "detail": "%s raised %s: %s at %s with inputs %r" % (law.__name__, type(e).__name__, e, exc_site(), args[1:])}
    if r is None:
        return {"reproduced": False, "detail": "precondition not met on replay with inputs %r" % (args[1:],)}
    if isinstance(r, tuple):
        ok, why = r
    else:
        ok, why = r, None
    if ok:
        return {"reproduced": False, "detail": "law holds on replay with inputs %r" % (args[1:],)}
    return {"reproduced": True, "symptom": "law-false", "at": why,
            "detail": "%s is false (%s) with inputs %r" % (law.__name__, why, args[1:])}


def model_dict(model):
    return {name: val for name, kind, val in (model or [])}
