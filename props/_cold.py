"""cold start: both accounts already hold content when the engine starts for the first time over an empty storage, and a
fresh process reads events from 'now' - so only the start-up walk can discover the content.  The first run is interrupted
(graceful stop inside the walk, process death at a storage/provider write, or one transient provider fault) and, for stop
and crash, restarted over the surviving storage.  Used by C06 (stop), C07 (crash), C10 (fault)."""
import io
from props import _lab
from props._lab import Lab, SymEnv, DictStorage, show, strip_conflicted
from props._hist import History, Fail, result_fail

EXPECT = {"/keep": b"keep", "/a": b"pre-a", "/d": None, "/d/x": b"pre-x", "/r": b"pre-r", "/e": None, "/e/y": b"pre-y"}


class Crash(BaseException):
    """the process dies here"""


def populate(lab):
    l, r = lab.p
    L, R = lab.roots
    l.create(L + "/keep", io.BytesIO(b"keep"))
    l.create(L + "/a", io.BytesIO(b"pre-a"))
    l.mkdir(L + "/d")
    l.create(L + "/d/x", io.BytesIO(b"pre-x"))
    r.create(R + "/r", io.BytesIO(b"pre-r"))
    r.mkdir(R + "/e")
    r.create(R + "/e/y", io.BytesIO(b"pre-y"))


def drain(h, lab, stepper=None, maxrounds=60):
    """fair rounds until the engine has reported 'not busy' in three consecutive rounds: before the sync manager's first
    successful step has validated the roots the event managers do not know yet that they have to walk, and the engine
    reports 'not busy' although nothing has been looked at (a start-up artefact this harness does not judge)"""
    quiet = 0
    for i in range(maxrounds):
        for o in (0, 1, 2):
            if stepper:
                stepper(o)
            else:
                h.step(o, "drain")
        if stepper:
            lab.pump_notifications()
        F = getattr(lab, "faults", None)
        was = F.active if F else False
        if F:
            F.active = False
        try:
            busy = lab.busy()
        except Exception:
            busy = True
        finally:
            if F:
                F.active = was
        quiet = 0 if busy else quiet + 1
        if quiet >= 3:
            return i + 1
    raise Fail("engine not quiet after %d fair rounds" % maxrounds, symptom="no-quiescence")


def cold_factory(params, env=None):
    mode = params["mode"]

    def fn():
        e = env or SymEnv()
        _lab.reset()
        lab = Lab(params["flavour"])
        lab.user(lambda: populate(lab))
        lab.storage = DictStorage()
        lab.restart()                        # first start of the engine: empty storage, event streams start at 'now'
        h = History(lab, e)
        h.hist.append(("cold-start", mode))
        try:
            if mode == "stop":
                # a graceful stop request arrives while the start-up walk of one side is under way (at its k-th object), possibly after some engine steps
                h.step(2)                  # the sync manager's first step validates the roots; only then do the event managers know they must walk
                for j in range(params.get("pre", 1)):
                    s = e.choose("step", 4)
                    h.hist.append("s%d" % s)
                    if s < 3:
                        h.step(s)
                sd = e.choose("walk_side", 2)
                kk = e.choose("stop_at_object", params.get("maxobj", 5))
                p_ = lab.p[sd]
                em = lab.cs.emgrs[sd]
                orig = p_.walk_oid

                def walk(*a, **k):
                    for i, x in enumerate(orig(*a, **k)):
                        if i == kk:
                            em.stop(forever=True, wait=False)
                        yield x
                p_.walk_oid = walk
                h.hist.append("STOP-IN-WALK side=%d at-object=%d" % (sd, kk))
                try:
                    lab.step(sd)
                finally:
                    p_.walk_oid = orig
                for j in range(params.get("post", 1)):
                    s = e.choose("step", 4)
                    h.hist.append("s%d" % s)
                    if s < 3 and s != sd:
                        h.step(s)
                lab.stop_engine()
                lab.restart()
                h.hist.append("RESTART")
                drain(h, lab)
            elif mode == "crash":
                kind = e.choose("crash_kind", 2)
                n = 1 + e.choose("crash_at", params["maxcrash"])
                count = [0]

                def storage_hook(k, tag, eid):
                    if kind == 0:
                        count[0] += 1
                        if count[0] == n:
                            raise Crash("before storage %s #%d" % (k, n))

                def provider_hook(rec):
                    if kind == 1:
                        count[0] += 1
                        if count[0] == n:
                            raise Crash("after provider %s on side %d #%d" % (rec[1], rec[0], n))
                lab.storage.hook = storage_hook
                lab.after_engine_write = provider_hook
                crashed = None
                try:
                    drain(h, lab)
                except Crash as c:
                    crashed = str(c)
                lab.storage.hook = None
                lab.after_engine_write = None
                if crashed is None:
                    return {"ok": True, "key": None, "nontrivial": False}
                h.hist.append("CRASH " + crashed)
                lab.restart()
                drain(h, lab)
            elif mode == "fault":
                from props import c10
                F = c10.Faults(lab)
                lab.faults = F
                at = 1 + e.choose("fault_at", params["maxat"])
                kind = c10.KINDS[e.choose("fault_kind", 2)]          # temporary, disconnected
                F.plan[at] = kind
                F.active = True
                lab.notifications.clear()
                def stepper(o):
                    try:
                        c10.run_step(lab, o)
                    except BaseException as ex:
                        if type(ex).__name__ in ("PathAbort", "Inconclusive", "Unsupported", "StepBudget"):
                            raise
                        raise Fail("an exception escaped a service loop step", exc=type(ex).__name__, symptom="escaped")
                drain(h, lab, stepper)
                F.active = False
                if not F.fired:
                    return {"ok": True, "key": None, "nontrivial": False}
                h.hist.append("FAULT %s at call %d (%s on side %d)" % (kind, at, F.fired[0][2], F.fired[0][1]))
                want = c10.WANT[kind]
                kinds = [n.ntype.value for n in lab.notifications]
                if want not in kinds:
                    raise Fail("a transient fault during the start-up walk was not reported by a notification of the matching kind", wanted=want, got=kinds, symptom="not-notified")
            tl, tr = lab.tree(0), lab.tree(1)
            info = dict(local=show(tl), remote=show(tr))
            if tl != EXPECT or tr != EXPECT:
                sym = "diverged" if strip_conflicted(tl) != strip_conflicted(tr) else "content-missing-or-extra"
                raise Fail("after the interrupted first start both roots do not hold exactly what the two accounts held before it", symptom=sym, **info)
        except Fail as f:
            return result_fail(h, f, params, {"mode": mode})
        finally:
            lab.storage.hook = None
            lab.after_engine_write = None
            if lab.cs is not None:
                lab.stop_engine()
        return {"ok": True, "key": repr(h.hist), "nontrivial": True}
    return fn
