"""C16 offline providers honour the provider contract.
(a) file-hash kernel of FileSystemProvider over symbolic file intervals (M1, linear integer arithmetic)
(b) MockProvider against a reference tree under solver-chosen call sequences (M2)"""
import io
from props._m1 import quiet_repo

PROP = "C16"
LEVEL = "other"
SELFTEST_PARTS = ("num", "tok")
WALL_BUDGET = {"quick": 3600, "thorough": 14400}
LMAX = 3 * 4096 + 5


# ---------------------------------------------------------------------------------------------
# (a) hash kernel
# ---------------------------------------------------------------------------------------------
class Seg:
    """bytes-like: concatenation of intervals [a, b) of one file; a, b are z3 Int terms or ints"""

    def __init__(self, parts):
        self.parts = list(parts)

    def __add__(self, o):
        if isinstance(o, (bytes, bytearray)):
            if len(o):
                raise TypeError("Seg + literal bytes")
            return self
        return Seg(self.parts + o.parts)

    def __radd__(self, o):
        if isinstance(o, (bytes, bytearray)) and not len(o):
            return self
        raise TypeError("literal bytes + Seg")

    def __bool__(self):
        import z3
        from symx.core import CTX
        if not self.parts:
            return False
        return CTX.branch(z3.Or([b > a for a, b in self.parts]))

    def __len__(self):
        raise TypeError("len(Seg) is symbolic")


class SymFile:
    """file-like over a file of symbolic length L; read/seek/tell in interval arithmetic"""

    def __init__(self, L):
        import z3
        self.L = L
        self.pos = z3.IntVal(0)
        self.closed = False

    def _z(self, x):
        import z3
        from symx.core import SInt
        if isinstance(x, SInt):
            return x.e
        return z3.IntVal(int(x))

    def seek(self, off, whence=0):
        import z3
        from symx.core import SInt
        off = self._z(off)
        if whence == 0:
            p = off
        elif whence == 2:
            p = self.L + off
        elif whence == 1:
            p = self.pos + off
        else:
            raise ValueError(whence)
        self.pos = z3.If(p < 0, 0, p)
        return SInt(self.pos)

    def tell(self):
        from symx.core import SInt
        return SInt(self.pos)

    def read(self, n=-1):
        import z3
        start = z3.If(self.pos < self.L, self.pos, self.L)
        if n is None or (isinstance(n, int) and n < 0):
            end = self.L
        else:
            n = self._z(n)
            end = z3.If(start + n < self.L, start + n, self.L)
        self.pos = z3.If(self.pos < self.L, end, self.pos)
        return Seg([(start, end)])

    def close(self):
        self.closed = True

    def __enter__(self):
        return self

    def __exit__(self, *a):
        self.close()


class FakeBlake:
    """injective hash stub: a digest is identified with the byte string fed, kept as interval list"""
    made = []

    def __init__(self, data=None, digest_size=32):
        self.fed = []
        FakeBlake.made.append(self)
        if data is not None:
            self.update(data)

    def update(self, b):
        if isinstance(b, Seg):
            self.fed.extend(b.parts)
        elif isinstance(b, (bytes, bytearray)) and not len(b):
            pass
        else:
            raise TypeError("unexpected data fed to hash: %r" % type(b))

    def digest(self):
        return Digest(self.fed)


class Digest:
    def __init__(self, fed):
        self.fed = list(fed)

    def __eq__(self, o):
        raise TypeError("digest comparison is decided by the oracle, not by the code under test")

    __hash__ = None


def covers(parts, L):
    """z3: the concatenation of the non-empty parts is exactly [0, L), in order"""
    import z3
    cur = z3.IntVal(0)
    conj = []
    for a, b in parts:
        conj.append(z3.Or(b <= a, a == cur))
        cur = z3.If(b > a, b, cur)
    conj.append(cur == L)
    return z3.And(conj)


class CovFile:
    """concrete file-like that records which byte ranges are read (replay)"""

    def __init__(self, data):
        self.f = io.BytesIO(data)

    def __getattr__(self, k):
        return getattr(self.f, k)

    def __enter__(self):
        return self

    def __exit__(self, *a):
        pass


def h_hash(params, model=None):
    mode = params["mode"]

    def fn():
        quiet_repo()
        import cloudsync.providers.filesystem as FS
        if model is not None:
            return concrete_hash(params, model)
        import z3
        from symx.core import CTX
        L = z3.Int("L")
        CTX.reg("L", "int", L)
        CTX.assume(L >= 0)
        if params.get("lmax") is not None:
            CTX.assume(L <= params["lmax"])
        saved = (FS.blake2b, FS.__dict__.get("open"), FS.os)
        FakeBlake.made = []

        class FakeOs:
            SEEK_END, SEEK_SET = 2, 0

            class path:
                isdir = staticmethod(lambda p: False)
                exists = staticmethod(lambda p: True)

            @staticmethod
            def stat(p):
                class S:
                    st_mtime = 5.0
                    st_size = 0
                return S()
        FS.blake2b = FakeBlake
        FS.open = lambda path, mode_="rb": SymFile(L)
        FS.os = FakeOs
        try:
            prov = FS.FileSystemProvider()
            prov._cache_enabled = (mode != "nocache")
            if mode == "get_hash":
                d = FS.get_hash(SymFile(L))
                if not CTX.valid(covers(d.fed, L), "get_hash-covers"):
                    return {"ok": False, "info": {"why": "get_hash(file) does not hash exactly the file's bytes in order"}}
                return {"ok": True, "key": "get_hash" + _pk(), "nontrivial": True}
            info_hash = prov._fast_hash_path("/f")            # what info_path/info_oid/hash_oid report
            data_hash = prov.hash_data(SymFile(L))            # what the engine computes from the same bytes
            if not isinstance(info_hash, Digest) or not isinstance(data_hash, Digest):
                return {"ok": False, "info": {"why": "hash is not a digest"}}
            if not CTX.valid(covers(info_hash.fed, L), "info-covers"):
                return {"ok": False, "info": {"why": "hash reported for a file is not a hash of its whole content", "which": "info"}}
            if not CTX.valid(covers(data_hash.fed, L), "data-covers"):
                return {"ok": False, "info": {"why": "hash_data(bytes) differs from the hash reported for a file with the same bytes", "which": "data"}}
            return {"ok": True, "key": mode + _pk(), "nontrivial": True}
        finally:
            FS.blake2b, FS.os = saved[0], saved[2]
            if saved[1] is None:
                del FS.open
            else:
                FS.open = saved[1]
    return fn


def _pk():
    from props._m1 import path_key
    return path_key()


def concrete_hash(params, model):
    """replay on a real temporary file with the real blake2b: contents of length L with all-distinct 4-byte words"""
    import os
    import tempfile
    import cloudsync.providers.filesystem as FS
    L = int([v for n, k, v in model if n == "L"][0])
    data = b"".join((i % 251).to_bytes(1, "big") + ((i * 7) % 256).to_bytes(1, "big") for i in range(L // 2 + 1))[:L]
    d = tempfile.mkdtemp(prefix="verif-c16-")
    try:
        path = os.path.join(d, "f")
        with open(path, "wb") as f:
            f.write(data)
        prov = FS.FileSystemProvider()
        prov._cache_enabled = params["mode"] != "nocache"
        if params["mode"] == "get_hash":
            from hashlib import blake2b
            ok = FS.get_hash(io.BytesIO(data)) == blake2b(data, digest_size=32).digest()
            return {"ok": ok, "info": {"why": "get_hash(file) does not hash exactly the file's bytes in order", "L": L}}
        ih = prov._fast_hash_path(path)
        dh = prov.hash_data(io.BytesIO(data))
        if ih != dh:
            return {"ok": False, "info": {"why": "hash_data(bytes) differs from the hash reported for a file with the same bytes", "L": L}}
        return {"ok": True}
    finally:
        import shutil
        shutil.rmtree(d, ignore_errors=True)


# ---------------------------------------------------------------------------------------------
# (b) MockProvider vs reference tree
# ---------------------------------------------------------------------------------------------
NAMES_CS = ["/a", "/A", "/d", "/d/a", "/d/é.x", "/d.b"]      # /d.b: a sibling whose name merely starts with the folder name /d
CALLS = ["create", "mkdir", "upload", "rename", "delete", "info", "listdir", "exists", "download"]


class Ref:
    """reference file tree: path -> ('file', content, id) | ('dir', None, id); error classes per upstream provider tests"""

    def __init__(self, fold):
        self.t = {"/": ("dir", None, None)}
        self.fold = fold

    def key(self, p):
        return p.lower() if self.fold else p

    def get(self, p):
        return self.t.get(self.key(p))

    def parent(self, p):
        i = p.rfind("/")
        return "/" if i <= 0 else p[:i]

    def kids(self, p):
        k = self.key(p)
        pre = k if k.endswith("/") else k + "/"
        return [q for q in self.t if q != k and q.startswith(pre)]


def h_mock(params, env=None):
    from props import _lab

    def fn():
        e = env or _lab.SymEnv()
        _lab.reset()
        oip, cs = params["oid_is_path"], params["case_sensitive"]
        p = _lab.mk_provider(oip, cs)
        ref = Ref(not cs)
        from cloudsync.exceptions import CloudFileNotFoundError, CloudFileExistsError, CloudException
        calls = []
        ids = {}            # ref key -> oid as reported at creation
        nver = [0]
        events_from = p.current_cursor if hasattr(p, "current_cursor") else None
        list(p.events())
        mutated = []        # (oid, exists) expected to be reported by events()

        def fail(why, **kw):
            return {"ok": False, "info": dict({"why": why, "calls": calls}, **kw), "sigdata": {"why": why, "oid_is_path": oip, "case_sensitive": cs,
                                                                                                "last": calls[-1][0] if calls else None}}

        def content():
            nver[0] += 1
            return b"v%d" % nver[0]
        names = params.get("names") or NAMES_CS
        kinds = params.get("calls") or CALLS
        for k in range(params["K"]):
            c = kinds[e.choose("call", len(kinds))]
            name = names[e.choose("name", len(names))]
            r = ref.get(name)
            if c == "create":
                data = content()
                calls.append((c, name))
                want = "exists" if r else ("notfound" if not ref.get(ref.parent(name)) else ("exists" if ref.get(ref.parent(name))[0] != "dir" else "ok"))
                try:
                    info = p.create(name, io.BytesIO(data))
                    got = "ok"
                except CloudFileExistsError:
                    got = "exists"
                except CloudFileNotFoundError:
                    got = "notfound"
                if got != want:
                    return fail("create: documented outcome %s, provider %s" % (want, got))
                if got == "ok":
                    if oip and not p.paths_match(info.oid, name):
                        return fail("path-style id differs from the path")
                    if info.hash != p.hash_data(io.BytesIO(data)):
                        return fail("hash reported by create differs from hash_data of the same bytes")
                    ref.t[ref.key(name)] = ("file", data, info.oid)
                    mutated.append((info.oid, True))
            elif c == "mkdir":
                calls.append((c, name))
                par = ref.get(ref.parent(name))
                want = "notfound" if not par else ("exists" if (par[0] != "dir" or (r and r[0] == "file")) else "ok")
                try:
                    oid = p.mkdir(name)
                    got = "ok"
                except CloudFileExistsError:
                    got = "exists"
                except CloudFileNotFoundError:
                    got = "notfound"
                if got != want:
                    return fail("mkdir: documented outcome %s, provider %s" % (want, got))
                if got == "ok":
                    if r and r[2] != oid:
                        return fail("mkdir of an existing folder returned a different id")
                    if not r:
                        ref.t[ref.key(name)] = ("dir", None, oid)
                        mutated.append((oid, True))
            elif c == "upload":
                calls.append((c, name))
                if not r:
                    continue
                data = content()
                want = "ok" if r[0] == "file" else "exists"
                try:
                    info = p.upload(r[2], io.BytesIO(data))
                    got = "ok"
                except CloudFileExistsError:
                    got = "exists"
                except CloudFileNotFoundError:
                    got = "notfound"
                if got != want:
                    return fail("upload: documented outcome %s, provider %s" % (want, got))
                if got == "ok":
                    if info.oid != r[2]:
                        return fail("upload changed the object id")
                    if info.hash != p.hash_data(io.BytesIO(data)):
                        return fail("hash reported by upload differs from hash_data of the same bytes")
                    ref.t[ref.key(name)] = ("file", data, r[2])
                    mutated.append((r[2], True))
            elif c == "rename":
                dst = names[e.choose("dst", len(names))]
                calls.append((c, name, dst))
                if not r or name == "/":
                    continue
                d = ref.get(dst)
                dpar = ref.get(ref.parent(dst))
                same = ref.key(dst) == ref.key(name)
                into_self = ref.key(dst).startswith(ref.key(name) + "/")
                if into_self:
                    continue          # moving a folder into itself: no provider contract fixes the outcome
                if not dpar:
                    want = "notfound"
                elif dpar[0] != "dir":
                    want = "exists"
                elif d and not same:
                    if d[0] != r[0]:
                        want = "exists"
                    elif d[0] == "dir" and not ref.kids(dst):
                        want = "ok"       # renaming a folder over an empty folder is allowed
                    else:
                        want = "exists"
                else:
                    want = "ok"
                try:
                    noid = p.rename(r[2], dst)
                    got = "ok"
                except CloudFileExistsError:
                    got = "exists"
                except CloudFileNotFoundError:
                    got = "notfound"
                if got != want:
                    return fail("rename: documented outcome %s, provider %s" % (want, got))
                if got == "ok":
                    if not oip and noid != r[2]:
                        return fail("id changed across rename on an id-style provider")
                    if oip and not p.paths_match(noid, dst):
                        return fail("path-style id after rename differs from the new path")
                    if d and not same:
                        if not oip:
                            mutated.append((ref.t[ref.key(dst)][2], False))      # the replaced empty folder is gone: its id must be reported as deleted
                        del ref.t[ref.key(dst)]
                    moved = [(q, ref.t[q]) for q in [ref.key(name)] + ref.kids(name)]
                    for q, v in moved:
                        del ref.t[q]
                    for q, v in moved:
                        nq = ref.key(dst) + q[len(ref.key(name)):]
                        nid = v[2]
                        if oip:
                            i2 = p.info_path(dst + q[len(ref.key(name)):])
                            nid = i2.oid if i2 else None
                        ref.t[nq] = (v[0], v[1], nid)
                    mutated.append((noid, True))
            elif c == "delete":
                calls.append((c, name))
                if not r or name == "/":
                    continue
                want = "exists" if (r[0] == "dir" and ref.kids(name)) else "ok"
                try:
                    p.delete(r[2])
                    got = "ok"
                except CloudFileExistsError:
                    got = "exists"
                except CloudFileNotFoundError:
                    got = "notfound"
                if got != want:
                    return fail("delete: documented outcome %s, provider %s" % (want, got))
                if got == "ok":
                    del ref.t[ref.key(name)]
                    mutated.append((r[2], False))
                    p.delete(r[2])           # deleting again is not an error
            else:
                calls.append((c, name))
            # ---- observers agree with the reference tree and with each other, after every call
            for q in NAMES_CS:
                rq = ref.get(q)
                info = p.info_path(q)
                if (info is None) != (rq is None):
                    return fail("info_path disagrees with the tree", path=q, tree=bool(rq))
                if bool(p.exists_path(q)) != (rq is not None):
                    return fail("exists_path disagrees with the tree", path=q)
                if rq:
                    if info.otype.value != ("file" if rq[0] == "file" else "dir"):
                        return fail("info_path reports the wrong type", path=q)
                    if info.oid != rq[2]:
                        return fail("info_path reports a different id than the one the object was given", path=q)
                    io2 = p.info_oid(info.oid)
                    if io2 is None or not p.paths_match(io2.path, info.path) or io2.hash != info.hash:
                        return fail("info_oid disagrees with info_path", path=q)
                    if not p.exists_oid(info.oid):
                        return fail("exists_oid false for a live object", path=q)
                    if rq[0] == "file":
                        b = io.BytesIO()
                        try:
                            p.download(info.oid, b)
                        except CloudException as ex:
                            return fail("download of a listed file raised %s" % type(ex).__name__, path=q)
                        if b.getvalue() != rq[1]:
                            return fail("download returns other bytes than last written", path=q)
                        if info.hash != p.hash_data(io.BytesIO(rq[1])) or p.hash_oid(info.oid) != info.hash:
                            return fail("hash reported for a file differs from hash_data of its bytes", path=q)
                    else:
                        listed = sorted(ref.key(x.path) for x in p.listdir(info.oid))
                        wantk = sorted(k2 for k2 in ref.kids(q) if "/" not in k2[len(ref.key(q).rstrip("/")) + 1:])
                        if listed != wantk:
                            return fail("listdir disagrees with the tree", path=q, got=listed, want=wantk)
        # ---- every successful mutation is reported by the event stream with the right id and existence
        evs = list(p.events())
        for oid, exists in mutated:
            if not any(ev.oid == oid and bool(ev.exists) == exists for ev in evs):
                if oip and not exists and any(ev.prior_oid == oid for ev in evs):
                    continue
                if oip and any(ev.prior_oid == oid or ev.oid == oid for ev in evs):
                    continue
                return fail("a successful mutation was not reported by events() with its id and existence", oid=oid, exists=exists)
        return {"ok": True, "key": repr(calls), "nontrivial": any(c[0] in ("create", "mkdir", "upload", "rename", "delete") for c in calls)}
    return fn


FS_OPS = [("create", "/doc", "X"), ("create", "/doc", "Y"), ("create", "/bak", "X"), ("create", "/bak", "Y"), ("upload", "/doc", "X"), ("upload", "/doc", "Y"),
          ("upload", "/bak", "S"), ("delete", "/doc", None), ("delete", "/bak", None), ("rename", "/doc", "/bak"), ("rename", "/bak", "/doc"), ("create", "/doc", "S")]


def h_fsreal(params, env=None):
    """the real FileSystemProvider on a real temporary directory: after every call the hash it reports for each file equals
    hash_data of the bytes it serves (mtime-keyed hash cache included); modification times are assigned deterministically"""
    from props import _lab

    def fn():
        import os
        import shutil
        import tempfile
        e = env or _lab.SymEnv()
        quiet_repo()
        import cloudsync.providers.filesystem as FS
        from cloudsync.exceptions import CloudException
        mid = (b"0123456789abcdef" * 64)
        X = b"H" * 1024 + mid + b"T" * 1024
        Y = b"H" * 1024 + mid[::-1] + b"T" * 1024          # same first and last KiB, different middle
        contents = {"X": X, "Y": Y, "S": b"small"}
        d = tempfile.mkdtemp(prefix="verif-c16fs-")
        prov = FS.FileSystemProvider()
        prov._connect_observer = lambda path: None           # no watchdog threads: events are not the subject here
        calls = []
        try:
            prov.namespace_id = d
            prov.connect({"k": "v"})
            clock = [1_000_000_000]
            prefix = params.get("prefix") or []
            for k in range(params["K"]):
                op = tuple(prefix[k]) if k < len(prefix) else FS_OPS[e.choose("op", len(FS_OPS))]
                kind, name, arg = op
                calls.append(op)
                try:
                    if kind == "create":
                        prov.create(name, io.BytesIO(contents[arg]))
                        clock[0] += 10
                        os.utime(os.path.join(d, name.lstrip("/")), (clock[0], clock[0]))
                    elif kind == "upload":
                        i = prov.info_path(name)
                        if not i:
                            continue
                        prov.upload(i.oid, io.BytesIO(contents[arg]))
                        clock[0] += 10
                        os.utime(os.path.join(d, name.lstrip("/")), (clock[0], clock[0]))
                    elif kind == "delete":
                        i = prov.info_path(name)
                        if not i:
                            continue
                        prov.delete(i.oid)
                    elif kind == "rename":
                        i = prov.info_path(name)
                        if not i or prov.info_path(arg):
                            continue
                        prov.rename(i.oid, arg)
                except CloudException as ex:
                    calls[-1] = op + (type(ex).__name__,)
                for n in ("/doc", "/bak"):
                    i = prov.info_path(n)
                    if not i:
                        continue
                    b = io.BytesIO()
                    prov.download(i.oid, b)
                    want = prov.hash_data(io.BytesIO(b.getvalue()))
                    for what, got in (("info_path", i.hash), ("info_oid", prov.info_oid(i.oid).hash), ("hash_oid", prov.hash_oid(i.oid))):
                        if got != want:
                            return {"ok": False, "info": {"why": "%s reports a hash that differs from hash_data of the bytes the provider serves" % what, "path": n, "calls": calls},
                                    "sigdata": {"why": "fs hash differs from hash_data of served bytes", "oid_is_path": True, "case_sensitive": True, "last": kind}}
        finally:
            try:
                prov.disconnect()
            except Exception:
                pass
            shutil.rmtree(d, ignore_errors=True)
        return {"ok": True, "key": repr(calls), "nontrivial": True}
    return fn


def h_connect(params, env=None):
    """connecting with credentials that yield a different identity is refused and leaves the provider disconnected"""
    from props import _lab

    def fn():
        e = env or _lab.SymEnv()
        _lab.reset()
        from cloudsync.exceptions import CloudTokenError
        p = _lab.mk_provider(False)
        first = p.connection_id
        orig = p.connect_impl
        seq = []
        # a sequence of logins, each with the pinned identity or with someone else's: every mismatching attempt is refused - also the
        # second one in a row (a retry) - the pinned identity never changes, and the rightful owner is accepted afterwards (seed C16-F)
        for k in range(params.get("N", 3)):
            other = e.choose("other_identity", 2)
            seq.append(other)
            p.disconnect()
            p.connect_impl = (lambda creds: "someone-else") if other else orig
            try:
                p.connect({"key": "val"})
                refused = False
            except CloudTokenError:
                refused = True
            if refused != bool(other):
                return {"ok": False, "info": {"why": "connect with a different identity: refused=%s" % refused, "attempts": seq}}
            if other and p.connected:
                return {"ok": False, "info": {"why": "provider left connected after refusing mismatched credentials", "attempts": seq}}
            if not other and not p.connected:
                return {"ok": False, "info": {"why": "provider not connected after a login with the pinned identity", "attempts": seq}}
            if p.connection_id != first:
                return {"ok": False, "info": {"why": "pinned connection id changed by a login attempt", "attempts": seq}}
        return {"ok": True, "key": str(seq), "nontrivial": True}
    return fn


def _mut_hash(params, model=None):
    """sensitivity twin: hash_data returns the first+last window unconditionally (the defect fixed as F4)"""
    inner = h_hash(params, model)

    def fn():
        quiet_repo()
        import cloudsync.providers.filesystem as FS
        orig = FS.FileSystemProvider.hash_data
        FS.FileSystemProvider.hash_data = lambda self, file_like: self._fast_hash_data(file_like)[0]
        try:
            return inner()
        finally:
            FS.FileSystemProvider.hash_data = orig
    return fn


HARNESSES = {"hash": h_hash, "mock": h_mock, "connect": h_connect, "fsreal": h_fsreal, "hash~window-only": _mut_hash}


def replay(harness, params, model):
    from props import _lab
    if harness in ("mock", "connect", "fsreal"):
        r = _lab.replay_driver(HARNESSES[harness], params, model)
        if r.get("reproduced"):
            r["sig"] = r.get("sigdata") or {"harness": harness, "why": r.get("symptom"), "at": r.get("at")}
        return r
    fn = HARNESSES[harness](dict(params), model)
    try:
        r = fn()
    except Exception as e:
        import traceback
        return {"reproduced": True, "detail": "exception: " + traceback.format_exc()[-800:], "sig": {"harness": harness, "why": type(e).__name__}}
    if r.get("ok"):
        return {"reproduced": False, "detail": "holds on replay"}
    return {"reproduced": True, "detail": str(r.get("info")), "sig": {"harness": harness.split("~")[0], "mode": params.get("mode"), "why": r["info"].get("why")}}


def signature(harness, params, rec):
    info = rec.get("info") or {}
    if harness == "fsreal":
        return {"why": "fs hash differs from hash_data of served bytes" if "hash_data" in (info.get("why") or "") else (info.get("why") or rec.get("exc")),
                "oid_is_path": True, "case_sensitive": True, "last": (info.get("calls") or [[None]])[-1][0]}
    if harness == "mock":
        return {"why": info.get("why") or rec.get("exc"), "oid_is_path": params["oid_is_path"], "case_sensitive": params["case_sensitive"],
                "last": (info.get("calls") or [[None]])[-1][0]}
    return {"harness": harness.split("~")[0], "mode": params.get("mode"), "why": info.get("why") or rec.get("exc")}


def jobs(tier):
    q = tier == "quick"
    out = [
        {"harness": "hash", "params": {"mode": "cache", "lmax": LMAX}, "label": "fs-hash/cache-on/L<=%d" % LMAX, "smt_dump": 4},
        {"harness": "hash", "params": {"mode": "nocache", "lmax": LMAX}, "label": "fs-hash/cache-off/L<=%d" % LMAX},
        {"harness": "hash", "params": {"mode": "get_hash", "lmax": LMAX}, "label": "fs-hash/get_hash/L<=%d" % LMAX},
        {"harness": "hash~window-only", "params": {"mode": "cache", "lmax": LMAX}, "label": "fs-hash~window-only", "role": "sens"},
        {"harness": "connect", "params": {}, "label": "connect-identity"},
        {"harness": "fsreal", "params": {"K": 4, "prefix": [["create", "/bak", "X"]]} if q else {"K": 4}, "label": "filesystem-provider/real-directory/4-calls" + ("/first=create-bak" if q else "")},
    ]
    for oip in (False, True):
        for cs in (True, False):
            out.append({"harness": "mock", "params": {"oid_is_path": oip, "case_sensitive": cs, "K": 2 if q else 3},
                        "label": "mock/%s/%s/%d-calls" % ("path-ids" if oip else "object-ids", "cs" if cs else "ci", 2 if q else 3)})
            out.append({"harness": "mock", "params": {"oid_is_path": oip, "case_sensitive": cs, "K": 3 if q else 4, "names": ["/a", "/d", "/d.b"] if cs else ["/a", "/A", "/d"],
                                                      "calls": ["create", "mkdir", "upload", "rename", "delete"]},
                        "label": "mock/%s/%s/%d-mutations-on-3-names" % ("path-ids" if oip else "object-ids", "cs" if cs else "ci", 3 if q else 4)})
    return out


def meta(tier):
    return {
        "explanation": "(a) M1: FileSystemProvider._fast_hash_data, hash_data, _fast_hash_path and get_hash run over a file-like whose length L is a z3 integer and whose "
                       "read/seek/tell return index intervals; blake2b is an injective stub recording the intervals it is fed; 'hash(info) == hash_data(same bytes) for every "
                       "content' becomes 'both interval sequences cover [0, L) in order', a linear-integer validity query (the 4 KiB streaming loop is unrolled, L <= 12293). "
                       "(b) M2: every public MockProvider call against a reference tree under solver-enumerated call sequences.",
        "bounds": {"file length": "0 <= L <= %d (three 4 KiB blocks + 5), every value" % LMAX, "mock": "2 (thorough 3) calls from 9 kinds over 6 names incl. case variants and a non-ASCII dotted name; 2 id styles x 2 case modes"},
        "symbolic": ["file length L", "call kind, name, rename target"],
        "outside": ["FileSystemProvider folder operations and watchdog events (OS I/O, threads); its file operations and the mtime-keyed hash cache ARE exercised concretely on a real temporary directory (fsreal job)", "files longer than the bound",
                    "moving a folder into itself"],
        "stubs": ["blake2b: injective recording stub", "open/os.stat/os.path.isdir inside cloudsync.providers.filesystem: symbolic file", "virtual clock, counter ids (mock)"],
        "assumptions": ["blake2b is collision free (equal hash <=> equal bytes)"],
    }
