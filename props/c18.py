"""C18 service loops: the real Runnable.run / NotificationManager under symbolic backoff parameters,
solver-chosen outcome sequences, stop points and handler failures"""
from fractions import Fraction
from props._m1 import quiet_repo, model_dict

PROP = "C18"
LEVEL = "other"
SELFTEST_PARTS = ("num",)
WALL_BUDGET = {"quick": 3600, "thorough": 14400}
OUTCOMES = ["did-something", "nothing-happened", "backoff", "exception", "base-exception"]


class _Boom(BaseException):
    pass


class Env:
    """symbolic or concrete source of the quantified values"""

    def __init__(self, model=None):
        self.sym = model is None
        self.m = list(model or [])
        self.i = 0
        if self.sym:
            from symx import core
            self.core = core

    def _next(self, name):
        n, kind, v = self.m[self.i]
        self.i += 1
        assert n.split("#")[0] == name, (n, name)
        return v

    def real(self, name):
        if self.sym:
            return self.core.sym_real(name)
        return Fraction(self._next(name))

    def choose(self, name, n):
        if self.sym:
            return int(self.core.sym_int(name, 0, n - 1))
        return int(self._next(name))

    def assume(self, c):
        if self.sym:
            self.core.CTX.assume(c.e if hasattr(c, "e") else c)
            if not self.core.CTX.feasible():
                raise self.core.PathAbort()
        elif not c:
            raise AssertionError("assumption false on replay")

    def equal(self, a, b, label):
        """validity of a == b on this path"""
        if self.sym:
            from symx.core import SReal, SInt, _r
            if isinstance(a, (SReal, SInt)) or isinstance(b, (SReal, SInt)):
                return self.core.CTX.valid(_r(a) == _r(b), label)
        return a == b


def _rn():
    quiet_repo()
    import cloudsync.runnable as RN

    class Clock:
        t = 0.0

        @staticmethod
        def monotonic():
            Clock.t += 1
            return Clock.t

        time = monotonic

        @staticmethod
        def sleep(s):
            pass
    RN.time = Clock
    return RN


def h_backoff(params, model=None):
    RN = _rn()
    K = params["K"]

    def fn():
        e = Env(model)
        mn, mx = e.real("min"), e.real("max")
        if params.get("mults"):
            # multiplier from a finite set: all queries are then linear (z3's nonlinear procedure answers 'unknown' on degree >= 4 paths)
            mult = [Fraction(x) for x in params["mults"]][e.choose("mult_choice", len(params["mults"]))]
        else:
            mult = e.real("mult")
            e.assume(mult >= 1)
        e.assume(mn > 0)
        e.assume(mx >= mn)
        outcomes = [e.choose("outcome", len(OUTCOMES)) for _ in range(K)]
        sleeps, calls = [], []

        class Svc(RN.Runnable):
            def do(self):
                k = len(calls)
                calls.append(k)
                o = OUTCOMES[outcomes[k]]
                if o == "nothing-happened":
                    self.nothing_happened()
                elif o == "backoff":
                    self.backoff()
                elif o == "exception":
                    raise ValueError("boom")
                elif o == "base-exception":
                    raise _Boom()

            def interruptable_sleep(self, secs):
                sleeps.append(secs)

        svc = Svc()
        svc.min_backoff, svc.max_backoff, svc.mult_backoff = mn, mx, mult
        n = [0]

        def until():
            n[0] += 1
            return n[0] >= K
        SLEEP = Fraction(1, 4)
        try:
            svc.run(until=until, sleep=SLEEP)
        except BaseException as ex:
            if type(ex).__name__ in ("PathAbort", "Inconclusive", "Unsupported", "StepBudget"):
                raise
            return {"ok": False, "info": {"why": "exception escaped run()", "exc": type(ex).__name__, "outcomes": outcomes}}
        # oracle: closed form min(max, min * mult^(k-1)) after the k-th consecutive failure
        fails = 0
        cur = None
        if len(calls) != K or len(sleeps) != K - 1:
            return {"ok": False, "info": {"why": "loop did not call do() once per iteration", "calls": len(calls), "outcomes": outcomes}}
        for k in range(K):
            o = OUTCOMES[outcomes[k]]
            if o in ("backoff", "exception", "base-exception"):
                fails += 1
                exp = mn
                for _ in range(fails - 1):
                    exp = exp * mult
                cur = mx if mx < exp else exp
            elif o == "did-something":
                fails = 0
                cur = None
            want = SLEEP if cur is None else cur
            if k < K - 1 and not e.equal(sleeps[k], want, "sleep%d" % k):
                return {"ok": False, "info": {"why": "requested sleep differs from min(max, min*mult^(k-1))", "iteration": k, "outcomes": outcomes}}
        if not e.equal(svc.in_backoff, 0 if cur is None else cur, "in_backoff"):
            return {"ok": False, "info": {"why": "in_backoff after the last iteration differs from the closed form (0 after success)", "outcomes": outcomes}}
        return {"ok": True, "key": repr(outcomes), "nontrivial": fails > 0 or any(OUTCOMES[o] != "did-something" for o in outcomes)}
    return fn


def h_stop(params, model=None):
    RN = _rn()
    K = params["K"]

    def fn():
        e = Env(model)
        outcomes = [e.choose("outcome", len(OUTCOMES)) for _ in range(K)]
        stop_at = e.choose("stop_at", K)
        forever = bool(e.choose("forever", 2))
        where = e.choose("where", 2)         # 0: from inside do(), 1: from until()
        calls, done = [], []

        class FakeThread:
            def __init__(self, *a, **k):
                pass

            def start(self):
                pass

            def is_alive(self):
                return False
            name = "x"
        real_thread = RN.threading.Thread
        RN.threading.Thread = FakeThread
        try:
            class Svc(RN.Runnable):
                def do(self):
                    k = len(calls)
                    calls.append(k)
                    if k == stop_at and where == 0:
                        self.stop(forever=forever)
                    o = OUTCOMES[outcomes[k]] if k < K else "did-something"
                    if o == "nothing-happened":
                        self.nothing_happened()
                    elif o == "backoff":
                        self.backoff()
                    elif o == "exception":
                        raise ValueError("boom")
                    elif o == "base-exception":
                        raise _Boom()

                def interruptable_sleep(self, secs):
                    pass

                def done(self):
                    done.append(len(calls))
            svc = Svc()
            n = [0]

            def until():
                n[0] += 1
                if n[0] - 1 == stop_at and where == 1:
                    svc.stop(forever=forever)
                return n[0] >= K + 3
            try:
                svc.run(until=until, sleep=0)
            except BaseException as ex:
                if type(ex).__name__ in ("PathAbort", "Inconclusive", "Unsupported", "StepBudget"):
                    raise
                return {"ok": False, "info": {"why": "exception escaped run()", "exc": type(ex).__name__}}
            info = {"outcomes": outcomes, "stop_at": stop_at, "forever": forever, "where": where, "calls": len(calls), "done": done}
            if len(calls) != stop_at + 1:
                return {"ok": False, "info": dict(info, why="do() called again after stop() was requested")}
            if len(done) != (1 if forever else 0):
                return {"ok": False, "info": dict(info, why="done() not run exactly once iff the stop was final")}
            if not svc.stopped or svc.started:
                return {"ok": False, "info": dict(info, why="stopped/started flags wrong after run returned")}
            try:
                svc.start()
                raised = False
            except RuntimeError:
                raised = True
            if raised != forever:
                return {"ok": False, "info": dict(info, why="start() after stop: RuntimeError iff the stop was final")}
            return {"ok": True, "key": repr((outcomes, stop_at, forever, where)), "nontrivial": True}
        finally:
            RN.threading.Thread = real_thread
    return fn


def h_latestart(params, model=None):
    """start() has returned but the service thread has not entered run() yet (its body is captured instead of started);
    the application calls stop() in that window; then the thread body runs.  A stop requested after start() must be
    honoured: the work function is never called, and a later start() works iff the stop was not final."""
    RN = _rn()

    def fn():
        e = Env(model)
        nstops = 1 + e.choose("nstops", 2)
        stops = [bool(e.choose("forever", 2)) for _ in range(nstops)]
        restart = bool(e.choose("restart_after", 2))
        calls, done = [], []
        captured = []

        class FakeThread:
            def __init__(self, *a, target=None, kwargs=None, **k):
                captured.append((target, kwargs or {}))

            def start(self):
                pass

            def is_alive(self):
                return False

            def join(self, timeout=None):
                pass
            name = "x"
        real_thread = RN.threading.Thread
        RN.threading.Thread = FakeThread
        try:
            class Svc(RN.Runnable):
                def do(self):
                    calls.append(len(calls))

                def interruptable_sleep(self, secs):
                    pass

                def done(self):
                    done.append(len(calls))
            svc = Svc()
            svc.start(until=lambda: len(calls) >= 3, sleep=0)
            for fv in stops:
                svc.stop(forever=fv, wait=False)
            final = any(stops)          # a final stop stays final (F46): a later non-final stop must not make the service startable again
            target, kw = captured[-1]
            try:
                target(**kw)                      # the thread body runs now
            except BaseException as ex:
                if type(ex).__name__ in ("PathAbort", "Inconclusive", "Unsupported", "StepBudget"):
                    raise
                return {"ok": False, "info": {"why": "exception escaped run()", "exc": type(ex).__name__}}
            info = {"stops": stops, "calls": len(calls), "done": done}
            if calls:
                return {"ok": False, "info": dict(info, why="work function called although stop() was requested after start() and before the thread body began")}
            if not svc.stopped or svc.started:
                return {"ok": False, "info": dict(info, why="stopped/started flags wrong after the thread body returned")}
            if restart:
                try:
                    svc.start(until=lambda: len(calls) >= 2, sleep=0)
                    raised = False
                except RuntimeError:
                    raised = True
                if raised != final:
                    return {"ok": False, "info": dict(info, why="start() after stop: RuntimeError iff one of the stops was final")}
                if not raised:
                    target, kw = captured[-1]
                    target(**kw)
                    if len(calls) != 2:
                        return {"ok": False, "info": dict(info, why="restarted service did not run its work function until its condition", calls2=len(calls))}
            return {"ok": True, "key": repr((stops, restart)), "nontrivial": True}
        finally:
            RN.threading.Thread = real_thread
    return fn


def h_stopall(params, model=None):
    """Runnable.stop_all over services in solver-chosen prior states (never started / thread body not entered yet / loop ended by its
    until() / paused by stop(forever=False) / already finally stopped): after a final stop_all none of them calls its work function again
    and every one of them refuses start(); after a non-final one all can be started again unless finally stopped before (seed C18-E)."""
    RN = _rn()
    NS = params.get("services", 2)

    def fn():
        e = Env(model)
        pres = [e.choose("pre", 5) for _ in range(NS)]
        forever = bool(e.choose("forever", 2))
        wait = bool(e.choose("wait", 2))
        captured = {}

        class FakeThread:
            def __init__(self, *a, target=None, kwargs=None, **k):
                captured[id(getattr(target, "__self__", None))] = (target, kwargs or {})

            def start(self):
                pass

            def is_alive(self):
                return False

            def join(self, timeout=None):
                pass
            name = "x"
        real_thread = RN.threading.Thread
        RN.threading.Thread = FakeThread
        try:
            svcs = []
            for pre in pres:
                calls, done = [], []

                class Svc(RN.Runnable):
                    def __init__(self, calls, done, pre):
                        self.calls, self.dones, self.pre = calls, done, pre

                    def do(self):
                        self.calls.append(len(self.calls))
                        if self.pre == 3 and len(self.calls) == 1:
                            self.stop(forever=False)
                        if self.pre == 4 and len(self.calls) == 1:
                            self.stop(forever=True)

                    def interruptable_sleep(self, secs):
                        pass

                    def done(self):
                        self.dones.append(len(self.calls))
                svc = Svc(calls, done, pre)
                if pre == 1:
                    svc.start(until=lambda c=calls: len(c) >= 3, sleep=0)
                elif pre in (2, 3, 4):
                    svc.run(until=lambda c=calls: len(c) >= 2, sleep=0)
                svcs.append(svc)
            before = [len(s.calls) for s in svcs]
            try:
                RN.Runnable.stop_all(svcs, forever=forever, wait=wait)
                for s in svcs:
                    if s.pre == 1:
                        target, kw = captured[id(s)]
                        target(**kw)                  # the thread body runs only now
            except BaseException as ex:
                if type(ex).__name__ in ("PathAbort", "Inconclusive", "Unsupported", "StepBudget"):
                    raise
                return {"ok": False, "info": {"why": "exception escaped stop_all()/run()", "exc": type(ex).__name__}}
            info = {"pre": pres, "forever": forever, "wait": wait}
            for i, s in enumerate(svcs):
                if len(s.calls) != before[i]:
                    return {"ok": False, "info": dict(info, why="work function called after stop_all() signalled the service", service=i)}
                if not s.stopped and s.pre != 0:
                    return {"ok": False, "info": dict(info, why="service not stopped after stop_all()", service=i)}
                final = forever or s.pre == 4
                try:
                    s.start(until=lambda: True, sleep=0)
                    raised = False
                except RuntimeError:
                    raised = True
                if raised != final:
                    return {"ok": False, "info": dict(info, why="start() after stop_all: RuntimeError iff a final stop reached the service", service=i)}
            return {"ok": True, "key": repr((pres, forever, wait)), "nontrivial": True}
        finally:
            RN.threading.Thread = real_thread
    return fn


def h_notify(params, model=None):
    RN = _rn()
    import cloudsync.notification as NT
    N = params["N"]

    def fn():
        e = Env(model)
        raises = [bool(e.choose("raises", 2)) for _ in range(N)]
        none_at = e.choose("none_at", N + 2)       # position of a None (stop request) in the stream; > N: none
        got = []

        def handler(n):
            got.append(n)
            if raises[n.path]:
                raise RuntimeError("handler failure")
        nm = NT.NotificationManager(handler)
        q = nm._NotificationManager__queue
        sent = []
        for i in range(N):
            if i == none_at:
                nm.notify(None)
            x = NT.Notification(NT.SourceEnum.SYNC, NT.NotificationType.TEMPORARY_ERROR, i)
            sent.append(x)
            nm.notify(x)
        if none_at == N:
            nm.notify(None)
        try:
            nm.run(until=lambda: q.empty(), sleep=0)
        except BaseException as ex:
            if type(ex).__name__ in ("PathAbort", "Inconclusive", "Unsupported", "StepBudget"):
                raise
            return {"ok": False, "info": {"why": "exception escaped NotificationManager.run()", "exc": type(ex).__name__}}
        want = sent[:none_at] if none_at <= N else sent
        info = {"raises": raises, "none_at": none_at, "delivered": [g.path for g in got]}
        if [g.path for g in got] != [w.path for w in want]:
            return {"ok": False, "info": dict(info, why="handler did not receive every notification exactly once in order (up to the stop marker)")}
        return {"ok": True, "key": repr((raises, none_at)), "nontrivial": True}
    return fn


def h_triples(params, model=None):
    """the backoff triples the managers derive from the providers' poll interval are well formed"""
    def fn():
        from props import _lab
        e = Env(model)
        s0, s1 = e.real("sleep0"), e.real("sleep1")
        e.assume(s0 > 0)
        e.assume(s1 > 0)
        _lab.reset()
        p = (_lab.mk_provider(False), _lab.mk_provider(False))
        p[0].default_sleep = s0
        p[1].default_sleep = s1
        lab = _lab.Lab("oid", providers=p, make_roots=True)
        try:
            for r in (lab.cs.smgr, lab.cs.emgrs[0], lab.cs.emgrs[1]):
                mn, mx, mult = r.min_backoff, r.max_backoff, r.mult_backoff
                if not (mn > 0 and mx >= mn and mult >= 1):
                    return {"ok": False, "info": {"why": "derived backoff triple violates 0 < min <= max, mult >= 1", "service": type(r).__name__}}
            if not (lab.cs.aging >= 0):
                return {"ok": False, "info": {"why": "negative ageing"}}
        finally:
            lab.stop_engine()
        return {"ok": True, "key": "triples", "nontrivial": True}
    return fn


def _mut(name, inner):
    """sensitivity twins: a broken loop installed for the duration of one path"""
    def factory(params, model=None):
        fn = inner(params, model)

        def wrapped():
            RN = _rn()
            saved = RN.Runnable._Runnable__increment_backoff
            if name == "no-cap":
                def inc(self):
                    self.in_backoff = max(self.in_backoff * self.mult_backoff, self.min_backoff)
                RN.Runnable._Runnable__increment_backoff = inc
            try:
                return fn()
            finally:
                RN.Runnable._Runnable__increment_backoff = saved
        return wrapped
    return factory


HARNESSES = {"backoff": h_backoff, "stop": h_stop, "latestart": h_latestart, "stopall": h_stopall, "notify": h_notify, "triples": h_triples,
             "backoff~no-cap": _mut("no-cap", h_backoff)}


def replay(harness, params, model):
    fn = HARNESSES[harness](dict(params), model)
    try:
        r = fn()
    except Exception as e:
        import traceback
        return {"reproduced": True, "detail": "exception: " + traceback.format_exc()[-800:], "sig": {"harness": harness, "why": type(e).__name__}}
    if r.get("ok"):
        return {"reproduced": False, "detail": "holds on replay"}
    return {"reproduced": True, "detail": str(r.get("info")), "sig": {"harness": harness, "why": r["info"].get("why")}}


def signature(harness, params, rec):
    info = rec.get("info") or {}
    return {"harness": harness, "why": info.get("why") or rec.get("exc")}


def jobs(tier):
    q = tier == "quick"
    return [
        {"harness": "backoff", "params": {"K": 4}, "label": "backoff/K=4/mult-symbolic", "smt_dump": 4 if q else 40},
    ] + ([] if q else [{"harness": "backoff", "params": {"K": 6, "mults": ["1", "3/2", "2", "10"]}, "label": "backoff/K=6/mult-in-{1,1.5,2,10}"}]) + [
        {"harness": "stop", "params": {"K": 3 if q else 4}, "label": "stop/K=%d" % (3 if q else 4)},
        {"harness": "latestart", "params": {}, "label": "stop-between-start-and-thread-entry"},
        {"harness": "stopall", "params": {"services": 2 if q else 3}, "label": "stop_all/%d-services-in-any-prior-state" % (2 if q else 3)},
        {"harness": "notify", "params": {"N": 4 if q else 6}, "label": "notify/N=%d" % (4 if q else 6)},
        {"harness": "triples", "params": {}, "label": "derived-triples"},
        {"harness": "backoff~no-cap", "params": {"K": 2}, "label": "backoff~no-cap", "role": "sens"},
    ]


def meta(tier):
    return {
        "explanation": "M1: the real Runnable.run/__increment_backoff/backoff/nothing_happened/stop/start and NotificationManager.do/notify/stop run "
                       "in one thread with min/max/mult as z3 reals; each requested sleep is proved equal to min(max, min*mult^(k-1)) by a nonlinear-real "
                       "validity query on every outcome sequence; stop point, finality and handler failures are solver-enumerated choices.",
        "bounds": {"iterations": "K = 4 with a symbolic multiplier (nonlinear; z3 answers unknown on some degree-4 paths at K = 5, so longer sequences - thorough K = 6 - use a multiplier from {1, 3/2, 2, 10} with min/max symbolic, all-linear); outcomes from %s" % OUTCOMES, "stop": "K = 3 (4), stop from do() or until(), final or not",
                   "notifications": "N = 4 (6), any subset of raising handler calls, stop marker at any position"},
        "symbolic": ["min_backoff, max_backoff, mult_backoff: reals with 0 < min <= max, mult >= 1", "outcome of every iteration", "stop iteration/finality/origin",
                     "which handler calls raise; where the stop marker sits", "providers' default_sleep (derived triples)"],
        "outside": ["stop()/wake()/start()/wait() racing a running loop from another thread at arbitrary points; stop_all joining real threads (real threads cannot run under a single-thread symbolic executor). Explored sequentially: stop() calls placed between start() returning and the service thread entering run(); stop_all() over services that are not running (never started, thread body not entered, loop ended by until(), paused, finally stopped)",
                    "floating-point rounding (floats are modelled as reals; replay uses exact fractions)", "long_poll.py"],
        "stubs": ["interruptable_sleep records the requested duration instead of waiting", "time.monotonic/time.sleep virtual", "threading.Thread replaced by an inert class for the start()-after-stop probe"],
        "assumptions": ["floats behave as reals", "z3 nonlinear real arithmetic is sound"],
    }
