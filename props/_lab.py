"""engine lab: the real CloudSync / SyncManager / EventManager / SyncState over two real MockProviders,
stepped deterministically, with solver-chosen user operations and schedules (M2).

Determinisation is harness-side rebinding of module globals only (no source hooks):
  * virtual clock for time.time/monotonic/sleep in state, manager, event, mock, provider, runnable, smartsync
  * MockFSObject ids, connection ids and temp names from counters
  * SyncEntry.__hash__ = creation sequence (set iteration over entries is otherwise address dependent)
  * EventManager._provider_guard cleared between paths
"""
import io
import os
import sys
import itertools

from props._m1 import quiet_repo

quiet_repo()
import cloudsync                                       # noqa: E402
import cloudsync.utils as U                            # noqa: E402
import cloudsync.sync.state as S                       # noqa: E402
import cloudsync.sync.manager as M                     # noqa: E402
import cloudsync.cs as CS                              # noqa: E402
import cloudsync.providers.mock as MK                  # noqa: E402
import cloudsync.event as EV                           # noqa: E402
import cloudsync.runnable as RN                        # noqa: E402
import cloudsync.provider as PV                        # noqa: E402
import cloudsync.smartsync as SM                       # noqa: E402
import cloudsync.notification as NT                    # noqa: E402
from cloudsync import CloudSync, MockProvider, Storage  # noqa: E402
from cloudsync.exceptions import CloudException         # noqa: E402

quiet_repo()


# ---------------------------------------------------------------------------------------------
# determinisation
# ---------------------------------------------------------------------------------------------
class Clock:
    def __init__(self):
        self.t = 1000.0
        self.tick = 1.0

    def time(self):
        self.t += self.tick
        return self.t

    monotonic = time

    def sleep(self, s):
        self.t += s


CLOCK = Clock()
for _m in (S, M, MK, EV, RN, PV, SM):
    _m.time = CLOCK

_SEQ = [0]
_OID = [0]
_RND = [0]
_orig_entry_init = S.SyncEntry.__init__


def _entry_init(self, *a, **k):
    _SEQ[0] += 1
    object.__setattr__(self, "_hseq", _SEQ[0])
    _orig_entry_init(self, *a, **k)


S.SyncEntry.__init__ = _entry_init
S.SyncEntry.__hash__ = lambda self: self._hseq
_orig_fso_init = MK.MockFSObject.__init__


def _fso_init(self, path, object_type, oid_is_path, hash_func, contents=None, mtime=None):
    _orig_fso_init(self, path, object_type, oid_is_path, hash_func, contents, mtime)
    if not oid_is_path:
        _OID[0] += 1
        self.oid = "id%d" % _OID[0]


MK.MockFSObject.__init__ = _fso_init


class _DetOs:
    """os with a counter-based urandom (temp-file names, connection ids)"""

    def __getattr__(self, k):
        return getattr(os, k)

    @staticmethod
    def urandom(n):
        _RND[0] += 1
        return _RND[0].to_bytes(n, "big")


M.os = _DetOs()
MK.os = _DetOs()


def reset():
    CLOCK.t = 1000.0
    CLOCK.tick = 1.0
    _SEQ[0] = 0
    _OID[0] = 0
    _RND[0] = 0
    EV.EventManager._provider_guard.clear()


# ---------------------------------------------------------------------------------------------
# choice environments
# ---------------------------------------------------------------------------------------------
class SymEnv:
    """choices are bounded solver integers enumerated through solver-decided branching"""
    symbolic = True

    def __init__(self):
        from symx import core
        self.core = core
        self.log = []

    def choose(self, name, n):
        if n <= 1:
            return 0
        v = int(self.core.sym_int(name, 0, n - 1))
        return v

    def var(self, name, lo, hi):
        """a bounded integer that stays symbolic until concretised (for solver-expressed constraints)"""
        return self.core.sym_int(name, lo, hi)

    def assume(self, c):
        self.core.CTX.assume(c.e if hasattr(c, "e") else c)
        if not self.core.CTX.feasible():
            raise self.core.PathAbort()

    def content(self, name):
        return self.core.Tok.fresh(self.core.CTX.fresh(name))


class ConcreteEnv:
    """replay: choices are read back from the recorded model, in order"""
    symbolic = False

    class Mismatch(Exception):
        pass

    def __init__(self, model):
        self.vals = [m for m in (model or [])]
        self.i = 0

    def _next(self, name):
        if self.i >= len(self.vals):
            raise ConcreteEnv.Mismatch("model exhausted at %s" % name)
        n, kind, v = self.vals[self.i]
        self.i += 1
        if n.split("#")[0] != name:
            raise ConcreteEnv.Mismatch("expected %s got %s" % (name, n))
        return v

    def choose(self, name, n):
        if n <= 1:
            return 0
        return int(self._next(name))

    def var(self, name, lo, hi):
        return int(self._next(name))

    def assume(self, c):
        if not c:
            raise ConcreteEnv.Mismatch("assumption false on replay")

    def content(self, name):
        return b"T%d" % int(self._next(name))


# ---------------------------------------------------------------------------------------------
# storage: a plain correct implementation of the Storage interface (MockStorage / SqliteStorage
# are themselves subjects of C09)
# ---------------------------------------------------------------------------------------------
class DictStorage(Storage):
    def __init__(self, data=None):
        self.data = data if data is not None else {}
        self.next = 1 + max([k for t in self.data.values() for k in t] + [0])
        self.writes = 0
        self.hook = None          # called before every write: hook(kind, tag, eid)

    def _w(self, kind, tag, eid):
        if self.hook:
            self.hook(kind, tag, eid)
        self.writes += 1

    def create(self, tag, serialization):
        self._w("create", tag, None)
        eid = self.next
        self.next += 1
        self.data.setdefault(tag, {})[eid] = serialization
        return eid

    def update(self, tag, serialization, eid):
        self._w("update", tag, eid)
        if eid not in self.data.get(tag, {}):
            raise ValueError("id %s doesn't exist" % eid)
        self.data[tag][eid] = serialization
        return 1

    def delete(self, tag, eid):
        self._w("delete", tag, eid)
        self.data.get(tag, {}).pop(eid, None)

    def read_all(self, tag=None):
        if tag is not None:
            return dict(self.data.get(tag, {}))
        return {t: dict(v) for t, v in self.data.items() if v}

    def read(self, tag, eid):
        return self.data.get(tag, {}).get(eid)

    def close(self):
        pass


# ---------------------------------------------------------------------------------------------
# providers, engine, stepping
# ---------------------------------------------------------------------------------------------
FLAVOURS = {
    "oid": dict(oip=(False, False)),
    "path": dict(oip=(True, True)),
    "mixed": dict(oip=(True, False)),
    "oid-ci": dict(oip=(False, False), cs=(False, False)),
    "path-ci": dict(oip=(True, True), cs=(False, False)),
    "oid-filt": dict(oip=(False, False), filt=True),
    "oid-h2": dict(oip=(False, False), hash2=True),              # the remote provider hashes with its own function
    "path-h2": dict(oip=(True, True), hash2=True),
    "oid-cics": dict(oip=(False, False), cs=(False, True)),       # case-insensitive local account, case-sensitive remote one
    "oid-csci": dict(oip=(False, False), cs=(True, False)),
}


def hash_func(b):
    if isinstance(b, (bytes, bytearray)):
        return b"h" + bytes(b)
    return b.derive("h")           # content token -> hash token (injective)


def hash_func2(b):
    """a second provider's own hash function (real provider pairs never share one)"""
    if isinstance(b, (bytes, bytearray)):
        return b"g" + bytes(b)[::-1]
    return b.derive("g")


def mk_provider(oid_is_path, case_sensitive=True, filter_events=False, hfunc=None):
    p = MockProvider(oid_is_path=oid_is_path, case_sensitive=case_sensitive, filter_events=filter_events,
                     hash_func=hfunc or hash_func)
    p.connect({"key": "val"})
    return p


MUTATORS = ("create", "upload", "rename", "delete", "mkdir")
READERS = ("info_path", "info_oid", "download", "listdir", "hash_oid", "exists_oid", "exists_path")


class MidStep:
    """finer interleaving: a user operation happens INSIDE an engine step, just before the engine's k-th provider call of
    that step (reads included) - the window between the engine looking at an object and acting on it"""

    def __init__(self, lab):
        self.lab = lab
        self.k = 0
        self.fn = None
        self.n = 0
        self.fired = None
        self.depth = 0
        for side, p in enumerate(lab.p):
            for name in READERS + MUTATORS:
                orig = getattr(p, name)
                if name == "listdir":
                    def w(*a, _o=orig, _n=name, _s=side, **kw):
                        self.hit(_s, _n)
                        yield from _o(*a, **kw)
                else:
                    def w(*a, _o=orig, _n=name, _s=side, **kw):
                        self.hit(_s, _n)
                        self.depth += 1
                        try:
                            return _o(*a, **kw)
                        finally:
                            self.depth -= 1
                setattr(p, name, w)

    def arm(self, k, fn):
        self.k, self.fn, self.n, self.fired = k, fn, 0, None

    def hit(self, side, name):
        if self.fn is None or self.lab.user_mode or self.depth:
            return
        self.n += 1
        if self.n == self.k:
            fn, self.fn = self.fn, None
            self.fired = (side, name)
            fn()


class Lab:
    """two providers + storage + engine; user operations go through the public Provider API"""

    def __init__(self, flavour="oid", roots=("/L", "/R"), storage=None, providers=None, cs_class=CloudSync,
                 aging=0, make_roots=True, cs_kwargs=None, cs_methods=None):
        f = FLAVOURS[flavour]
        self.flavour = flavour
        oip = f["oip"]
        cs_ = f.get("cs", (True, True))
        if providers is None:
            providers = (mk_provider(oip[0], cs_[0], f.get("filt", False)), mk_provider(oip[1], cs_[1], f.get("filt", False), hash_func2 if f.get("hash2") else None))
        self.p = providers
        self.roots = roots
        self.storage = storage if storage is not None else DictStorage()
        self.calls = []            # engine-issued mutating provider calls: (side, method, args summary)
        self.user_mode = False
        self.notes = []
        self.cs_class = cs_class
        self.cs_kwargs = cs_kwargs or {}
        self.cs_methods = cs_methods or {}
        self.handler_raises = False
        self.aging = aging
        self._wrap()
        if make_roots:
            self.user(lambda: (self.p[0].mkdir(roots[0]), self.p[1].mkdir(roots[1])))
        self.cs = None
        self.start_engine()

    # -- engine life cycle -----------------------------------------------------------------
    def start_engine(self):
        EV.EventManager._provider_guard.clear()
        lab = self
        self.notifications = []

        class LabCS(self.cs_class):
            def handle_notification(self, n):
                lab.notifications.append(n)
                if lab.handler_raises:
                    raise RuntimeError("handler failure injected by the harness")
        for k, v in self.cs_methods.items():
            setattr(LabCS, k, v)
        self.cs = LabCS(self.p, roots=self.roots, storage=self.storage, sleep=None, **self.cs_kwargs)
        self.cs.aging = self.aging
        return self.cs

    def pump_notifications(self):
        """deliver queued notifications through the real NotificationManager.do()"""
        nm = self.cs.nmgr
        q = nm._NotificationManager__queue
        nm._run_until = lambda: True
        while not q.empty():
            nm.do()

    def restart(self):
        """the process goes away (nothing is flushed) and a new engine is started over the same storage and accounts:
        the providers' in-memory cursor position is lost (a fresh process starts at 'now'); the accounts' event logs persist"""
        self.stop_engine()
        for p in self.p:
            if not p.connected:
                p.connect(p._test_creds)
            p._cursor = p._latest_cursor
        self.generation = getattr(self, "generation", 0) + 1
        return self.start_engine()

    def stop_engine(self):
        """drop the engine as a process exit would: nothing is flushed"""
        try:
            self.cs.smgr.done()
        except Exception:
            pass
        self.cs = None

    # -- instrumentation ---------------------------------------------------------------------
    def _wrap(self):
        for side, p in enumerate(self.p):
            for name in MUTATORS:
                orig = getattr(p, name)

                def w(*a, _orig=orig, _name=name, _side=side, **k):
                    if self.user_mode:
                        return _orig(*a, **k)
                    rec = [_side, _name, _summ(a)]
                    if _name in ("upload", "rename", "delete") and a:
                        obj = self.p[_side]._mock_fs.get(a[0])
                        rec[2] = rec[2] + ["@" + str(obj.path if obj is not None else None)]
                        if _name == "delete":
                            rec.append({"existed": bool(obj is not None and obj.exists)})
                    if _name in ("create", "upload") and len(a) > 1 and hasattr(a[1], "read"):
                        # spurious transfer = the target already holds exactly this content at this path
                        try:
                            data = a[1].read()
                            a[1].seek(0)
                            pth = a[0] if _name == "create" else (self.p[_side]._mock_fs.get(a[0]).path if self.p[_side]._mock_fs.get(a[0]) else None)
                            cur = self.p[_side]._mock_fs.get(self.p[_side].normalize_path(pth)) if pth else None
                            rec.append({"spurious": bool(cur is not None and cur.exists and cur.contents == data)})
                        except Exception:
                            rec.append({"spurious": None})
                    self.calls.append(rec)
                    r = _orig(*a, **k)
                    rec.append("ok")
                    if self.after_engine_write:
                        self.after_engine_write(rec)
                    return r
                setattr(p, name, w)
        self.after_engine_write = None

    def user(self, fn):
        self.user_mode = True
        try:
            return fn()
        finally:
            self.user_mode = False

    # -- stepping ----------------------------------------------------------------------------
    def step(self, which):
        """one engine step: 0/1 = event intake of that side, 2 = one sync step"""
        try:
            if which == 2:
                self.cs.smgr.do()
            else:
                self.cs.emgrs[which].do()
        except RN._BackoffError:
            pass

    def busy(self):
        return bool(self.cs.busy)

    def drain(self, maxrounds=40):
        """fair round robin until the engine reports nothing left; None = not quiet within the bound"""
        for i in range(maxrounds):
            for o in (0, 1, 2):
                self.step(o)
            if not self.busy():
                return i + 1
        return None

    # -- observation -------------------------------------------------------------------------
    def tree(self, side, root=None):
        """{relative path: bytes | None(for folders)} under the sync root, through walk/download"""
        p = self.p[side]
        root = root if root is not None else self.roots[side]
        out = {}
        info = p.info_path(root)
        if not info:
            return out
        for e in p.walk(root):
            rel = e.path[len(root):] if root != "/" else e.path
            if e.otype.value == "file":
                b = _Sink()
                p.download(e.oid, b)
                out[rel] = b.value()
            else:
                out[rel] = None
        return out

    def account(self, side):
        return self.tree(side, "/")


class _Sink:
    def __init__(self):
        self.parts = []

    def write(self, b):
        self.parts.append(b)
        return 1

    def value(self):
        if len(self.parts) == 1:
            return self.parts[0]
        return b"".join(self.parts)


def _summ(a):
    out = []
    for x in a:
        if isinstance(x, str):
            out.append(x)
        elif isinstance(x, (bytes, int, float, type(None))):
            out.append(repr(x))
        else:
            out.append(type(x).__name__)
    return out


def show(tree):
    return {k: (v.decode("latin1") if isinstance(v, (bytes, bytearray)) else (None if v is None else repr(v))) for k, v in sorted(tree.items())}


def strip_conflicted(tree):
    return {k: v for k, v in tree.items() if ".conflicted" not in k}


# ---------------------------------------------------------------------------------------------
# user operations (public Provider API only)
# ---------------------------------------------------------------------------------------------
OPS = ["create_a", "create_b", "write_a", "write_b", "delete_a", "delete_b", "rename_a_b", "mkdir_d", "rmdir_d",
       "move_a_d", "rendir_d_e", "mkdir_d_s", "create_d_a", "delete_d_a", "rename_b_a", "write_d_a"]


def do_op(lab, side, op, content):
    """performs op on side if applicable; returns a descriptor tuple.  ('noop', op) when the operation does
    not apply to the current tree, ('failed', op, exc) when the provider refuses it"""
    p = lab.p[side]
    root = lab.roots[side]

    def info(n):
        return p.info_path(root + n)

    def run():
        kind = op.split("_")[0]
        if kind == "create":
            n = "/" + "/".join(op.split("_")[1:])
            if info(n):
                return ("noop", op)
            par = n.rsplit("/", 1)[0]
            if par and not info(par):
                return ("noop", op)
            p.create(root + n, io.BytesIO(content) if isinstance(content, bytes) else TokFile(content))
            return ("create", n, content)
        if kind == "write":
            n = "/" + "/".join(op.split("_")[1:])
            i = info(n)
            if not i or i.otype.value != "file":
                return ("noop", op)
            p.upload(i.oid, io.BytesIO(content) if isinstance(content, bytes) else TokFile(content))
            return ("write", n, content)
        if kind == "delete":
            n = "/" + "/".join(op.split("_")[1:])
            i = info(n)
            if not i or i.otype.value != "file":
                return ("noop", op)
            p.delete(i.oid)
            return ("delete", n)
        if op.startswith("mv:") or op.startswith("mvdir:"):
            # generic rename / move: "mv:/d/a:/d/b" (file), "mvdir:/e:/d" (folder)
            k_, src, dst = op.split(":")
            i = info(src)
            want = "file" if k_ == "mv" else "dir"
            if not i or i.otype.value != want or info(dst):
                return ("noop", op)
            par = dst.rsplit("/", 1)[0]
            if par and not info(par):
                return ("noop", op)
            if k_ == "mvdir" and (dst + "/").startswith(src + "/"):
                return ("noop", op)
            p.rename(i.oid, root + dst)
            return ("rename" if k_ == "mv" else "rendir", src, dst)
        if op.startswith("mkdir:"):
            n = op.split(":")[1]
            par = n.rsplit("/", 1)[0]
            if info(n) or (par and not info(par)):
                return ("noop", op)
            p.mkdir(root + n)
            return ("mkdir", n)
        if op.startswith("rmdir:"):
            n = op.split(":")[1]
            i = info(n)
            if not i or i.otype.value != "dir" or list(p.listdir(i.oid)):
                return ("noop", op)
            p.delete(i.oid)
            return ("rmdir", n)
        if op in ("rename_a_b", "rename_b_a", "move_a_d", "rename_a_c"):
            src, dst = {"rename_a_b": ("/a", "/b"), "rename_b_a": ("/b", "/a"), "move_a_d": ("/a", "/d/a"), "rename_a_c": ("/a", "/c")}[op]
            i = info(src)
            if not i or i.otype.value != "file" or info(dst):
                return ("noop", op)
            if op == "move_a_d" and not info("/d"):
                return ("noop", op)
            p.rename(i.oid, root + dst)
            return ("rename", src, dst)
        if op == "mkdir_a":
            if info("/a"):
                return ("noop", op)
            p.mkdir(root + "/a")
            return ("mkdir", "/a")
        if op == "rmdir_a":
            i = info("/a")
            if not i or i.otype.value != "dir" or list(p.listdir(i.oid)):
                return ("noop", op)
            p.delete(i.oid)
            return ("rmdir", "/a")
        if op == "mkdir_d":
            if info("/d"):
                return ("noop", op)
            p.mkdir(root + "/d")
            return ("mkdir", "/d")
        if op == "mkdir_d_s":
            if not info("/d") or info("/d/s"):
                return ("noop", op)
            p.mkdir(root + "/d/s")
            return ("mkdir", "/d/s")
        if op == "rmdir_d":
            i = info("/d")
            if not i or i.otype.value != "dir":
                return ("noop", op)
            if list(p.listdir(i.oid)):
                return ("noop", op)
            p.delete(i.oid)
            return ("rmdir", "/d")
        if op == "rendir_d_e":
            i = info("/d")
            if not i or i.otype.value != "dir" or info("/e"):
                return ("noop", op)
            p.rename(i.oid, root + "/e")
            return ("rendir", "/d", "/e")
        raise ValueError(op)

    try:
        return lab.user(run)
    except CloudException as e:
        return ("failed", op, type(e).__name__)


def apply_op(lab, side, kind, src, dst=None, content=None):
    """explicit-path user operation through the public Provider API; returns a descriptor like do_op"""
    p = lab.p[side]
    root = lab.roots[side]

    def info(n):
        return p.info_path(root + n)

    def fl(c):
        return io.BytesIO(c) if isinstance(c, bytes) else TokFile(c)

    def run():
        i = info(src)
        if kind == "create":
            par = src.rsplit("/", 1)[0]
            if i or (par and not info(par)):
                return ("noop", kind, src)
            p.create(root + src, fl(content))
            return ("create", src, content)
        if kind == "write":
            if not i or i.otype.value != "file":
                return ("noop", kind, src)
            p.upload(i.oid, fl(content))
            return ("write", src, content)
        if kind == "delete":
            if not i or i.otype.value != "file":
                return ("noop", kind, src)
            p.delete(i.oid)
            return ("delete", src)
        if kind == "mkdir":
            par = src.rsplit("/", 1)[0]
            if i or (par and not info(par)):
                return ("noop", kind, src)
            p.mkdir(root + src)
            return ("mkdir", src)
        if kind == "rmdir":
            if not i or i.otype.value != "dir" or list(p.listdir(i.oid)):
                return ("noop", kind, src)
            p.delete(i.oid)
            return ("rmdir", src)
        if kind in ("rename", "rendir"):
            want = "file" if kind == "rename" else "dir"
            dpar = dst.rsplit("/", 1)[0]
            if not i or i.otype.value != want or info(dst) or (dpar and not info(dpar)):
                return ("noop", kind, src, dst)
            p.rename(i.oid, root + dst)
            return (kind, src, dst)
        raise ValueError(kind)
    try:
        return lab.user(run)
    except CloudException as e:
        return ("failed", kind, src, type(e).__name__)


class TokFile:
    """file-like whose whole content is one opaque token"""

    def __init__(self, t):
        self.t = t
        self.done = False

    def read(self, *a):
        if self.done:
            return b""
        self.done = True
        return self.t

    def seek(self, *a):
        self.done = False
        return 0

    def tell(self):
        return 0

    def close(self):
        pass


def base_tree(lab, base):
    """a previously synchronised tree: created on the local side and drained"""
    l = lab.p[0]
    r0 = lab.roots[0]

    def mk():
        if base >= 1:
            l.create(r0 + "/a", io.BytesIO(b"base-a"))
        if base >= 2:
            l.mkdir(r0 + "/d")
        if base >= 3:
            l.create(r0 + "/b", io.BytesIO(b"base-b"))
            l.create(r0 + "/d/a", io.BytesIO(b"base-da"))
        if base >= 4:
            l.mkdir(r0 + "/m")
    lab.user(mk)
    return lab.drain()


def replay_driver(harness_factory, params, model):
    """run a lab harness concretely (no symbolic layer): choices come from the model"""
    env = ConcreteEnv(model)
    fn = harness_factory(dict(params), env)
    try:
        res = fn()
    except ConcreteEnv.Mismatch as e:
        return {"reproduced": None, "detail": "replay diverged from the recorded choices: %s" % e}
    except Exception as e:
        import traceback
        from props._m1 import exc_site
        return {"reproduced": True, "symptom": type(e).__name__, "at": exc_site(),
                "detail": "exception escaped: %s" % traceback.format_exc()[-1200:]}
    if res.get("ok", True):
        return {"reproduced": False, "detail": "oracle holds on concrete replay: %s" % str(res.get("info"))[:400]}
    return {"reproduced": True, "detail": str(res.get("info"))[:1500], "info": res.get("info"), "sigdata": res.get("sigdata")}
