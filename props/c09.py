"""C09 storage backends: the real SqliteStorage methods over a symbolic relational stub (one call from an
arbitrary table = inductive step, and two-call sequences), validated per path against the real SQLite; the real
MockStorage under solver-chosen call sequences incl. re-opening, against a dict model"""
import re
from props._m1 import quiet_repo

PROP = "C09"
LEVEL = "other"
SELFTEST_PARTS = ("num", "tok")
WALL_BUDGET = {"quick": 3600, "thorough": 14400}
OPS = ["create", "update", "delete", "read", "read_all_tag", "read_all"]
TAGS = ["t0", "t1"]
IDMAX = 5


class TV(Exception):
    """translation validation failed: the SQL stub disagrees with real SQLite"""


# ---------------------------------------------------------------------------------------------
# symbolic relational stub standing in for sqlite3.Connection
# ---------------------------------------------------------------------------------------------
class Cursor:
    def __init__(self, rows=None, rowcount=-1, lastrowid=None):
        self._rows = rows or []
        self.rowcount = rowcount
        self.lastrowid = lastrowid

    def fetchall(self):
        return self._rows


class Row:
    __slots__ = ("present", "id", "tag", "blob")

    def __init__(self, present, id, tag, blob):
        self.present, self.id, self.tag, self.blob = present, id, tag, blob


class SymTag(str):
    """a tag: symbolic index into TAGS; equality through the solver; hashable only once concrete"""
    def __new__(cls, e):
        o = str.__new__(cls, "<tag>")
        o.e = e
        return o


def zv(x):
    import z3
    from symx.core import SInt, Tok
    if isinstance(x, SymTag):
        return x.e
    if isinstance(x, (SInt, Tok)):
        return x.e
    if isinstance(x, bool):
        raise TypeError(x)
    if isinstance(x, int):
        return z3.IntVal(x)
    if isinstance(x, str) and x in TAGS:
        return z3.IntVal(TAGS.index(x))
    raise TypeError(type(x))


class SymDB:
    def __init__(self, nrows):
        import z3
        from symx.core import CTX
        self.z3 = z3
        self.CTX = CTX
        self.rows = []
        for i in range(nrows):
            r = Row(z3.Bool("present%d" % i), z3.Int("id%d" % i), z3.Int("tag%d" % i), z3.Int("blob%d" % i))
            CTX.reg("present%d" % i, "bool", r.present)
            CTX.reg("id%d" % i, "int", r.id)
            CTX.reg("tag%d" % i, "int", r.tag)
            CTX.reg("blob%d" % i, "tok", r.blob)
            CTX.assume(z3.And(r.tag >= 0, r.tag <= 1, r.id >= 1, r.id <= IDMAX))
            for b in self.rows:
                CTX.assume(z3.Implies(z3.And(r.present, b.present), r.id != b.id))     # PRIMARY KEY
            self.rows.append(r)
        self.ninserted = 0
        self.log = []

    def snapshot(self):
        return [(r.present, r.id, r.tag, r.blob) for r in self.rows]

    COLS = {"id": lambda r: r.id, "tag": lambda r: r.tag, "serialization": lambda r: r.blob}

    def where(self, clause, params):
        z3 = self.z3
        toks = re.split(r"\s+(and|or)\s+", clause.strip(), flags=re.I)
        conds, ops = [], []
        for t in toks:
            if t.lower() in ("and", "or"):
                ops.append(t.lower())
                continue
            m = re.fullmatch(r"(\w+)\s*(=|==|!=|<>)\s*\?", t.strip())
            if not m:
                raise NotImplementedError("WHERE term %r" % t)
            conds.append((m.group(1), m.group(2), params.pop(0)))

        def f(r):
            # SQL precedence: AND binds tighter than OR
            groups, cur = [], []
            for k, (col, op, p) in enumerate(conds):
                c = self.COLS[col](r) == zv(p)
                if op in ("!=", "<>"):
                    c = z3.Not(c)
                if k and ops[k - 1] == "or":
                    groups.append(cur)
                    cur = []
                cur.append(c)
            groups.append(cur)
            return z3.Or([z3.And(g) for g in groups])
        return f

    def execute(self, sql, parameters=()):
        from symx.core import SInt, Tok
        z3, CTX = self.z3, self.CTX
        params = list(parameters)
        s = " ".join(sql.split()).rstrip(";")
        self.log.append(s)
        if re.match(r"(?i)(pragma|create )", s):
            return Cursor()
        m = re.fullmatch(r"(?i)insert into cloud \((\w+), (\w+)\) values \(\?, \?\)", s)
        if m:
            vals = dict(zip([m.group(1).lower(), m.group(2).lower()], params))
            nid = z3.Int("newid%d" % self.ninserted)
            self.ninserted += 1
            CTX.reg(str(nid), "int", nid)
            CTX.assume(z3.And(nid >= 1, nid <= IDMAX + 2))
            for r in self.rows:
                CTX.assume(z3.Implies(r.present, nid != r.id))       # rowid of a new row is unused
            self.rows.append(Row(z3.BoolVal(True), nid, zv(vals["tag"]), zv(vals["serialization"])))
            return Cursor(lastrowid=SInt(nid, 1, IDMAX + 2), rowcount=1)
        m = re.fullmatch(r"(?i)update cloud set serialization = \? where (.*)", s)
        if m:
            newblob = zv(params.pop(0))
            f = self.where(m.group(1), params)
            n = 0
            for r in self.rows:
                if CTX.branch(z3.And(r.present, f(r))):
                    r.blob = newblob
                    n += 1
            return Cursor(rowcount=n)
        m = re.fullmatch(r"(?i)delete from cloud where (.*)", s)
        if m:
            f = self.where(m.group(1), params)
            n = 0
            for r in self.rows:
                if CTX.branch(z3.And(r.present, f(r))):
                    r.present = z3.BoolVal(False)
                    n += 1
            return Cursor(rowcount=n)
        m = re.fullmatch(r"(?i)select (.*?) from cloud(?: where (.*))?", s)
        if m:
            cols = [c.strip().lower() for c in m.group(1).split(",")]
            f = self.where(m.group(2), params) if m.group(2) else (lambda r: z3.BoolVal(True))
            out = []
            for r in self.rows:
                if CTX.branch(z3.And(r.present, f(r))):
                    vals = []
                    for c in cols:
                        if c == "id":
                            vals.append(int(SInt(r.id, 1, IDMAX + 2)))            # concretised: becomes a dict key
                        elif c == "tag":
                            vals.append(TAGS[int(SInt(r.tag, 0, 1))])
                        elif c == "serialization":
                            vals.append(Tok(r.blob, "c"))
                        else:
                            raise NotImplementedError(c)
                    out.append(tuple(vals))
            return Cursor(rows=out)
        raise NotImplementedError(s)

    def close(self):
        pass


def mkstore(nrows):
    quiet_repo()
    from threading import Lock
    from cloudsync.sync.sqlite_storage import SqliteStorage
    st = SqliteStorage.__new__(SqliteStorage)
    st._mutex = Lock()
    st._filename = ":sym:"
    st.db = SymDB(nrows)
    return st


# ---------------------------------------------------------------------------------------------
# dict-model semantics over z3 rows (the specification)
# ---------------------------------------------------------------------------------------------
def h_sqlite(params, model=None):
    """K calls from an arbitrary table; every return value, raised class and the post-state against the map model"""
    K = params["K"]
    NR = params["rows"]
    if model is not None:
        return lambda: concrete_sqlite(params, model)

    def fn():
        import z3
        from symx.core import CTX, SInt, Tok, sym_int
        st = mkstore(NR)
        db = st.db
        spec = db.snapshot()                     # model rows: list of (present, id, tag, blob) terms
        calls = []
        for k in range(K):
            op = OPS[int(sym_int("op", 0, len(OPS) - 1))]
            tag = SymTag(sym_int("qtag", 0, 1).e)
            eid = sym_int("qid", 0, IDMAX + 2)
            blob = Tok.fresh(CTX.fresh("qblob"))
            calls.append(op)
            hit = [z3.And(p, i == eid.e, t == tag.e) for p, i, t, b in spec]
            found = z3.Or(hit) if hit else z3.BoolVal(False)
            why = None
            if op == "create":
                got = st.create(tag, blob)
                if not isinstance(got, SInt):
                    why = "create returned %s" % type(got).__name__
                elif not CTX.valid(z3.And([z3.Implies(p, got.e != i) for p, i, t, b in spec] or [z3.BoolVal(True)]), "create-id-unused"):
                    why = "create returned an id a live row is using"
                spec = spec + [(z3.BoolVal(True), got.e, tag.e, blob.e)] if why is None else spec
            elif op == "update":
                try:
                    r = st.update(tag, blob, eid)
                    raised = False
                except ValueError:
                    raised = True
                if raised and not CTX.valid(z3.Not(found), "update-raise"):
                    why = "update raised although the row exists"
                if not raised and not CTX.valid(found, "update-noraise"):
                    why = "update of a missing (tag, id) row did not raise"
                if not raised:
                    spec = [(p, i, t, z3.If(h, blob.e, b)) for (p, i, t, b), h in zip(spec, hit)]
            elif op == "delete":
                st.delete(tag, eid)
                spec = [(z3.And(p, z3.Not(h)), i, t, b) for (p, i, t, b), h in zip(spec, hit)]
            elif op == "read":
                got = st.read(tag, eid)
                if got is None:
                    if not CTX.valid(z3.Not(found), "read-none"):
                        why = "read returned nothing although the row exists"
                elif not isinstance(got, Tok):
                    why = "read returned %s, not the stored bytes" % type(got).__name__
                elif not CTX.valid(z3.Or([z3.And(h, b == got.e) for (p, i, t, b), h in zip(spec, hit)] or [z3.BoolVal(False)]), "read-blob"):
                    why = "read returned bytes other than the last written for (tag, id)"
            elif op in ("read_all_tag", "read_all"):
                got = st.read_all(tag) if op == "read_all_tag" else st.read_all()
                flat = {}
                if op == "read_all_tag":
                    for k2, v in got.items():
                        flat[(None, k2)] = v
                else:
                    for tg, d in got.items():
                        for k2, v in d.items():
                            flat[(tg, k2)] = v
                for (tg, k2), v in flat.items():
                    tcond = (lambda t: t == tag.e) if tg is None else (lambda t, tg=tg: t == TAGS.index(tg))
                    if not isinstance(v, Tok) or not CTX.valid(z3.Or([z3.And(p, i == k2, tcond(t), b == v.e) for p, i, t, b in spec] or [z3.BoolVal(False)]), "read_all-sound"):
                        why = "read_all returned a row that is not a live row of the tag"
                        break
                if why is None:
                    for p, i, t, b in spec:
                        want = z3.And(p, t == tag.e) if op == "read_all_tag" else p
                        have = z3.Or([z3.And(i == k2, True if tg is None else t == TAGS.index(tg)) for (tg, k2) in flat] or [z3.BoolVal(False)])
                        if not CTX.valid(z3.Implies(want, have), "read_all-complete"):
                            why = "read_all missed a live row"
                            break
            if why is None:
                # post-state of the table equals the model
                if len(db.rows) != len(spec):
                    why = "table has a different number of rows than the model"
                else:
                    for r, (p, i, t, b) in zip(db.rows, spec):
                        if not CTX.valid(z3.And(r.present == p, z3.Implies(p, z3.And(r.id == i, r.tag == t, r.blob == b))), "post-state"):
                            why = "table after %s differs from the map model (another row or tag affected)" % op
                            break
            if why:
                return {"ok": False, "info": {"why": why, "op": op, "calls": calls, "sql": db.log[-2:]}}
        # translation validation of this path: same table and calls on the real SQLite
        tv = concrete_sqlite(params, CTX.model_values(), expect_ok=True)
        if not tv.get("ok"):
            from symx.core import Inconclusive
            raise Inconclusive("SQL stub disagrees with real SQLite on this path: %s" % tv)
        return {"ok": True, "key": repr(calls) + _pk(), "nontrivial": True}
    return fn


def _pk():
    from props._m1 import path_key
    return path_key()


def concrete_sqlite(params, model, expect_ok=False):
    """the same table and calls on a real SqliteStorage over an in-memory database, against a dict model"""
    quiet_repo()
    from cloudsync.sync.sqlite_storage import SqliteStorage
    m = list(model)
    NR, K = params["rows"], params["K"]
    vals = {n: v for n, k, v in m}
    st = SqliteStorage(":memory:")
    spec = {}
    for i in range(NR):
        if vals.get("present%d" % i):
            tag, rid, blob = TAGS[vals["tag%d" % i]], vals["id%d" % i], b"B%d" % vals["blob%d" % i]
            st.db.execute("INSERT INTO cloud (id, tag, serialization) VALUES (?, ?, ?)", [rid, tag, blob])
            spec[rid] = (tag, blob)
    seq = [(n.split("#")[0], v) for n, k, v in m if n.split("#")[0] in ("op", "qtag", "qid", "qblob")]
    calls = []
    why = None
    for k in range(K):
        try:
            (_, op), (_, tag), (_, eid), (_, blob) = seq[4 * k: 4 * k + 4]
        except ValueError:
            break
        op, tag, blob = OPS[op], TAGS[tag], b"B%d" % blob
        calls.append((op, tag, eid))
        hit = eid in spec and spec[eid][0] == tag
        if op == "create":
            got = st.create(tag, blob)
            if got in spec:
                why = "create returned an id a live row is using"
            spec[got] = (tag, blob)
        elif op == "update":
            try:
                st.update(tag, blob, eid)
                raised = False
            except ValueError:
                raised = True
            if raised == hit:
                why = "update: raised=%s although row present=%s" % (raised, hit)
            if hit:
                spec[eid] = (tag, blob)
        elif op == "delete":
            st.delete(tag, eid)
            if hit:
                del spec[eid]
        elif op == "read":
            got = st.read(tag, eid)
            want = spec[eid][1] if hit else None
            if got != want:
                why = "read returned %r, expected %r" % (got, want)
        elif op == "read_all_tag":
            got = st.read_all(tag)
            want = {i: b for i, (t, b) in spec.items() if t == tag}
            if got != want:
                why = "read_all(tag) returned %r, expected %r" % (got, want)
        elif op == "read_all":
            got = st.read_all()
            want = {}
            for i, (t, b) in spec.items():
                want.setdefault(t, {})[i] = b
            if got != want:
                why = "read_all() returned %r, expected %r" % (got, want)
        if why is None:
            cur = {r[0]: (r[1], r[2]) for r in st.db.execute("SELECT id, tag, serialization FROM cloud").fetchall()}
            if cur != spec:
                why = "table after %s differs from the map model: %r vs %r" % (op, cur, spec)
        if why:
            break
    st.close()
    if why:
        return {"ok": False, "info": {"why": why, "calls": calls}}
    return {"ok": True}


# ---------------------------------------------------------------------------------------------
# MockStorage (the other implementation of the interface shipped in the repository)
# ---------------------------------------------------------------------------------------------
def h_mock(params, model=None):
    K = params["K"]

    def fn():
        quiet_repo()
        from cloudsync.tests.fixtures.mock_storage import MockStorage
        if model is None:
            from symx.core import CTX, Tok, sym_int
            choose = lambda name, n: int(sym_int(name, 0, n - 1))
            content = lambda: Tok.fresh(CTX.fresh("blob"))
        else:
            it = iter(model)

            def choose(name, n):
                nm, k, v = next(it)
                assert nm.split("#")[0] == name
                return int(v)

            def content():
                nm, k, v = next(it)
                return b"B%d" % int(v)
        backing = {}
        MockStorage.lock_dict.clear()
        st = MockStorage(backing)
        spec = {}                                 # (tag, id) -> blob
        calls = []
        deferred = None       # read-of-missing-id raising is noted and the sequence continues, so that it cannot mask later calls
        ops = OPS + (["reopen"] if params.get("reopen") else [])
        for k in range(K):
            op = ops[choose("op", len(ops))]
            tag = TAGS[choose("tag", 2)] if op not in ("reopen", "read_all") else None
            eid = choose("id", 3) if op in ("update", "delete", "read") else None
            calls.append((op, tag, eid))
            why = None
            if op == "reopen":
                st.close()
                st = MockStorage(backing)
                continue
            if op == "create":
                blob = content()
                got = st.create(tag, blob)
                if (tag, got) in spec:
                    why = "create returned an id a live row of that tag is using (a live row was overwritten)"
                spec[(tag, got)] = blob
            elif op == "update":
                blob = content()
                try:
                    st.update(tag, blob, eid)
                    raised = False
                except ValueError:
                    raised = True
                if raised == ((tag, eid) in spec):
                    why = "update: raised=%s although row present=%s" % (raised, (tag, eid) in spec)
                if (tag, eid) in spec:
                    spec[(tag, eid)] = blob
            elif op == "delete":
                st.delete(tag, eid)
                spec.pop((tag, eid), None)
            elif op == "read":
                try:
                    got = st.read(tag, eid)
                except ValueError:
                    got = "raised ValueError"
                want = spec.get((tag, eid))
                if isinstance(got, str) and want is None:
                    deferred = deferred or {"why": "read of (%s, %s): got ValueError, map model has nothing" % (tag, eid), "op": op, "calls": list(calls)}
                elif isinstance(got, str) or (got is None) != (want is None) or (want is not None and got != want):
                    why = "read of (%s, %s): got %s, map model has %s" % (tag, eid, "nothing" if got is None else ("ValueError" if isinstance(got, str) else "bytes"),
                                                                          "nothing" if want is None else "bytes")
            elif op == "read_all_tag":
                got = st.read_all(tag)
                want = {i: b for (t, i), b in spec.items() if t == tag}
                if sorted(got) != sorted(want) or any(got[i] != want[i] for i in want):
                    why = "read_all(tag) differs from the live rows of the tag"
            elif op == "read_all":
                got = st.read_all()
                want = {}
                for (t, i), b in spec.items():
                    want.setdefault(t, {})[i] = b
                if sorted(got) != sorted(want) or any(sorted(got[t]) != sorted(want[t]) or any(got[t][i] != want[t][i] for i in want[t]) for t in want):
                    why = "read_all() differs from the live rows"
            if why:
                return {"ok": False, "info": {"why": why, "op": op, "calls": calls}}
        if deferred:
            return {"ok": False, "info": deferred}
        return {"ok": True, "key": repr(calls), "nontrivial": True}
    return fn


def h_file(params, model=None):
    """on-disk backend: solver-chosen call sequence with one injected sqlite3.OperationalError (exercising the reconnect path),
    then close and reopen the file in a fresh connection: every acknowledged write is visible, nothing else is"""
    K = params["K"]

    def fn():
        quiet_repo()
        import os
        import sqlite3
        import tempfile
        from cloudsync.sync.sqlite_storage import SqliteStorage
        if model is None:
            from symx.core import sym_int
            choose = lambda name, n: int(sym_int(name, 0, n - 1))
        else:
            it = iter(model)

            def choose(name, n):
                nm, k, v = next(it)
                assert nm.split("#")[0] == name
                return int(v)
        d = tempfile.mkdtemp(prefix="verif-c09-")
        path = os.path.join(d, "s.db")
        st = SqliteStorage(path)
        calls = []
        spec = {}
        try:
            fault_at = choose("fault_at", K + 1)        # which storage call hits an OperationalError first (K = none)
            reopen_at = choose("reopen_at", K + 1)      # close+reopen before this call (K = only at the end)
            for k in range(K):
                if k == reopen_at:
                    st.close()
                    st = SqliteStorage(path)
                    calls.append("reopen")
                op = ["create", "update", "delete"][choose("op", 3)]
                tag = TAGS[choose("tag", 2)]
                ids = sorted(i for (t, i) in spec if t == tag) + [99]
                eid = ids[choose("id", min(len(ids), 3))] if op != "create" else None
                blob = b"blob-%d" % k
                calls.append((op, tag, eid))
                if k == fault_at:
                    # the connection object is replaced by one whose first execute raises, as a dropped handle would
                    real = st.db

                    class Flaky:
                        def __init__(self):
                            self.n = 0

                        def execute(self, *a):
                            self.n += 1
                            if self.n == 1:
                                raise sqlite3.OperationalError("injected")
                            return real.execute(*a)

                        def close(self):
                            real.close()
                    st.db = Flaky()
                try:
                    if op == "create":
                        got = st.create(tag, blob)
                        if (tag, got) in spec or any(i == got for (t, i) in spec):
                            return {"ok": False, "info": {"why": "create returned an id a live row is using", "op": op, "calls": calls}}
                        spec[(tag, got)] = blob
                    elif op == "update":
                        try:
                            st.update(tag, blob, eid)
                            if (tag, eid) not in spec:
                                return {"ok": False, "info": {"why": "update of a missing (tag, id) row did not raise", "op": op, "calls": calls}}
                            spec[(tag, eid)] = blob
                        except ValueError:
                            if (tag, eid) in spec:
                                return {"ok": False, "info": {"why": "update raised although the row exists", "op": op, "calls": calls}}
                    else:
                        st.delete(tag, eid)
                        spec.pop((tag, eid), None)
                except sqlite3.Error as ex:
                    calls[-1] = calls[-1] + ("raised " + type(ex).__name__,)      # not acknowledged: the model is not updated
            st.close()
            st = SqliteStorage(path)
            got = {(t, i): b for t, dd in st.read_all().items() for i, b in dd.items()}
            if got != spec:
                return {"ok": False, "info": {"why": "table after close and reopen differs from the acknowledged writes", "op": "reopen", "calls": calls,
                                              "missing": sorted(map(str, set(spec.items()) - set(got.items())))[:4], "extra": sorted(map(str, set(got.items()) - set(spec.items())))[:4]}}
        finally:
            try:
                st.close()
            except Exception:
                pass
            import shutil
            shutil.rmtree(d, ignore_errors=True)
        return {"ok": True, "key": repr(calls), "nontrivial": True}
    return fn


def h_conc(params, model=None):
    """two callers share one SqliteStorage: caller B's complete call runs at a solver-chosen release of the storage mutex inside caller
    A's call (the only points where another thread can get in, since every access to the shared connection happens under that mutex).
    Linearizability oracle: both results and the final table must equal those of A;B or of B;A run one after the other."""
    def fn():
        quiet_repo()
        import os
        import tempfile
        from cloudsync.sync.sqlite_storage import SqliteStorage
        if model is None:
            from symx.core import sym_int
            choose = lambda name, n: int(sym_int(name, 0, n - 1))
        else:
            it = iter(model)

            def choose(name, n):
                nm, k, v = next(it)
                assert nm.split("#")[0] == name
                return int(v)
        d = tempfile.mkdtemp(prefix="verif-c09c-")
        path = os.path.join(d, "s.db")

        def pick(who):
            op = ["create", "update", "delete", "read"][choose("op" + who, 4)]
            tag = TAGS[choose("tag" + who, 2)]
            eid = [1, 2, 3][choose("id" + who, 3)]
            return (op, tag, eid, ("blob-" + who).encode())

        def apply_model(spec, call, nxt):
            op, tag, eid, blob = call
            if op == "create":
                new = max([i for (_t, i) in spec] + [0]) + 1          # INTEGER PRIMARY KEY without AUTOINCREMENT: largest id in use + 1
                spec[(tag, new)] = blob
                return ("id", new)
            if op == "update":
                if (tag, eid) in spec:
                    spec[(tag, eid)] = blob
                    return ("ok",)
                return ("ValueError",)
            if op == "delete":
                spec.pop((tag, eid), None)
                return ("ok",)
            return ("read", spec.get((tag, eid)))

        def run(st, call):
            op, tag, eid, blob = call
            try:
                if op == "create":
                    return ("id", st.create(tag, blob))
                if op == "update":
                    st.update(tag, blob, eid)
                    return ("ok",)
                if op == "delete":
                    st.delete(tag, eid)
                    return ("ok",)
                return ("read", st.read(tag, eid))
            except ValueError:
                return ("ValueError",)
        st = SqliteStorage(path)
        try:
            st.create(TAGS[0], b"pre-1")
            st.create(TAGS[1], b"pre-2")
            a, b = pick("A"), pick("B")
            at = 1 + choose("release", params.get("maxrel", 3))
            box = {}
            real = st._mutex

            class Gate:
                """the storage mutex; at the chosen release inside A's call the other caller gets in and completes its call"""
                def __init__(self):
                    self.n = 0
                    self.inside = False

                def __enter__(self):
                    return real.__enter__()

                def __exit__(self, *x):
                    r = real.__exit__(*x)
                    if not self.inside:
                        self.n += 1
                        if self.n == at:
                            self.inside = True
                            box["b"] = run(st, b)
                            self.inside = False
                    return r

                def acquire(self, *a_, **k_):
                    return real.acquire(*a_, **k_)

                def release(self):
                    return self.__exit__(None, None, None)
            st._mutex = Gate()
            ra = run(st, a)
            st._mutex = real
            if "b" not in box:
                return {"ok": True, "key": None, "nontrivial": False}      # A's call has fewer critical sections than the chosen index
            rb = box["b"]
            got = {(t, i): bl for t, dd in st.read_all().items() for i, bl in dd.items()}
            outcomes = []
            for order in ("AB", "BA"):
                spec = {(TAGS[0], 1): b"pre-1", (TAGS[1], 2): b"pre-2"}
                nxt = [3]
                res = {}
                for who in order:
                    res[who] = apply_model(spec, a if who == "A" else b, nxt)
                outcomes.append((res["A"], res["B"], spec))
            if not any(ra == oa and rb == ob and got == sp for oa, ob, sp in outcomes):
                return {"ok": False, "info": {"why": "two interleaved callers: results and final table match neither order of the two calls (a write was lost or an id handed out twice)",
                                              "op": "concurrent", "calls": [a[:3], b[:3], "B ran at release %d of A" % at], "resultA": repr(ra), "resultB": repr(rb), "table": repr(sorted(got.items()))}}
        finally:
            try:
                st.close()
            except Exception:
                pass
            import shutil
            shutil.rmtree(d, ignore_errors=True)
        return {"ok": True, "key": repr((a[:3], b[:3], at)), "nontrivial": True}
    return fn


def _mut_sql(params, model=None):
    """sensitivity twin: UPDATE loses its tag condition"""
    inner = h_sqlite(params, model)

    def fn():
        quiet_repo()
        from cloudsync.sync.sqlite_storage import SqliteStorage
        orig = SqliteStorage.update

        def update(self, tag, serialization, eid):
            c = self._SqliteStorage__db_execute('UPDATE cloud SET serialization = ? WHERE id = ?', [serialization, eid])
            if c.rowcount == 0:
                raise ValueError("id %s doesn't exist" % eid)
            return c.rowcount
        SqliteStorage.update = update
        try:
            return inner()
        finally:
            SqliteStorage.update = orig
    return fn


HARNESSES = {"sqlite": h_sqlite, "mock": h_mock, "file": h_file, "conc": h_conc, "sqlite~update-no-tag": _mut_sql}


def _classify(why, op):
    why = why or ""
    if why.startswith("read returned tuple") or why.startswith("read returned ("):
        return "read-returns-row-tuple"
    if why.startswith("read of") and "ValueError" in why:
        return "read-missing-raises"
    if "live row was overwritten" in why:
        return "id-reuse-after-reopen"
    if why.startswith("update"):
        return "update-missing-no-raise" if ("did not raise" in why or "raised=False" in why) else "update-present-raised"
    if why.startswith("create returned"):
        return "create-id-in-use"
    if why.startswith("read_all"):
        return "read_all-wrong"
    if why.startswith("read"):
        return "read-wrong"
    if why.startswith("table after close"):
        return "not-durable-after-reopen"
    if why.startswith("table"):
        return "post-state-differs"
    return re.sub(r"[0-9]+", "N", why)[:80]


def replay(harness, params, model):
    fn = HARNESSES[harness](dict(params), model)
    try:
        r = fn()
    except Exception as e:
        import traceback
        return {"reproduced": True, "detail": "exception: " + traceback.format_exc()[-800:], "sig": {"harness": harness, "class": type(e).__name__}}
    if r.get("ok"):
        return {"reproduced": False, "detail": "holds on replay"}
    info = r["info"]
    return {"reproduced": True, "detail": str(info), "sig": {"harness": harness.split("~")[0], "class": _classify(info.get("why"), info.get("op"))}}


def signature(harness, params, rec):
    info = rec.get("info") or {}
    return {"harness": harness.split("~")[0], "class": _classify(info.get("why") or rec.get("exc"), info.get("op"))}


def jobs(tier):
    q = tier == "quick"
    return [
        {"harness": "sqlite", "params": {"K": 1, "rows": 3}, "label": "sqlite/1-call-from-arbitrary-3-row-table", "smt_dump": 4},
        {"harness": "sqlite", "params": {"K": 2, "rows": 2 if q else 3}, "label": "sqlite/2-calls/%d-rows" % (2 if q else 3)},
        {"harness": "mock", "params": {"K": 3 if q else 4, "reopen": True}, "label": "mockstorage/%d-calls+reopen" % (3 if q else 4)},
        {"harness": "file", "params": {"K": 3 if q else 4}, "label": "sqlite-file/%d-calls+fault+reopen" % (3 if q else 4)},
        {"harness": "conc", "params": {"maxrel": 3}, "label": "sqlite-file/two-callers-interleaved-at-mutex-releases"},
        {"harness": "sqlite~update-no-tag", "params": {"K": 1, "rows": 2}, "label": "sqlite~update-no-tag", "role": "sens"},
    ]


def meta(tier):
    return {
        "explanation": "M1: SqliteStorage.create/update/delete/read/read_all run for real with self.db replaced by a symbolic relation (<= 3 rows: present Bool, id Int "
                       "pairwise distinct, tag, blob token); a small SQL interpreter is applied to the statement text the real code passes at run time; every result, "
                       "raised class and the post-state are compared with a map model by z3 validity queries, from an ARBITRARY table (inductive step over the "
                       "representation invariant 'ids unique', which the PRIMARY KEY guarantees) and for 2-call sequences. Each explored path's model is then executed on "
                       "the real SQLite (in-memory) and compared (translation validation). MockStorage: real class, solver-chosen 3-4 call sequences incl. re-open.",
        "bounds": {"table": "<= 3 rows, ids 1..5 (new ids 1..7), 2 tags", "calls": "1 from arbitrary state; 2-call sequences (thorough: 3 rows)", "mockstorage": "3 (4) calls, ids 0..2, 2 tags, reopen"},
        "symbolic": ["row presence, ids, tags, blobs of the pre-state", "operation, tag, id, blob of each call"],
        "outside": ["crash durability (power loss) and WAL internals of the on-disk file (C library, file I/O); close/reopen visibility IS checked, concretely, by the sqlite-file harness", "concurrent callers as real threads (the two-caller harness interleaves at the storage mutex's release points, which is where another thread can get in as long as every access to the shared connection is made under that mutex - an assumption, read off the code)", "blob values themselves (opaque tokens: only equality matters)"],
        "stubs": ["sqlite3 connection replaced by the symbolic relation + SQL interpreter (INSERT, UPDATE..SET, DELETE, SELECT cols, WHERE with = != <> AND OR, CREATE, PRAGMA); "
                  "validated per path against real SQLite"],
        "assumptions": ["SQLite assigns an unused rowid on INSERT", "z3 is sound"],
    }
