"""C06 restart resumes from persisted state; offline changes are synchronised; cursor loss falls back to a walk"""
import io
from props import _lab
from props._lab import Lab, SymEnv, show, strip_conflicted, do_op
from props._hist import History, Fail, result_fail, sig_from_rec, std_replay

PROP = "C06"
LEVEL = "other"
SELFTEST_PARTS = ("num",)
WALL_BUDGET = {"quick": 3600, "thorough": 14400}
OPS = ["create_b", "write_a", "delete_a", "rename_a_b", "mkdir_d", "rmdir_d", "move_a_d", "rendir_d_e", "mkdir_d_s", "create_d_a"]
VARIANTS = ["intact", "cursor-removed", "cursor-rejected"]


def damage(storage, variant):
    for tag in list(storage.data):
        if "_cursor" in tag:
            if variant == "cursor-removed":
                storage.data[tag] = {}
            elif variant == "cursor-rejected":
                for k in storage.data[tag]:
                    storage.data[tag][k] = "bogus-cursor"


def _factory(params, env=None):
    def fn():
        e = env or SymEnv()
        _lab.reset()
        lab = Lab(params["flavour"])
        variant = params["variant"]
        if not params.get("empty"):       # "empty": the very first session, nothing synchronised yet (persisted cursors are still at their first values)
            lab.user(lambda: (lab.p[0].create("/L/keep", io.BytesIO(b"keep")), lab.p[0].create("/L/a", io.BytesIO(b"base-a")), lab.p[0].mkdir("/L/d")))
        if lab.drain() is None:
            return {"ok": False, "info": {"why": "base tree did not become quiet"}, "sigdata": {"symptom": "base-not-quiet"}}
        h = History(lab, e)
        live = {}           # content bytes written by users and not overwritten/deleted by a user since
        dirs = {}           # folders made by users (dropped from the oracle as soon as any folder is renamed or removed)
        sides = set()

        def content_at(side, rel):
            p = lab.p[side]
            i = p.info_path(lab.roots[side] + rel)
            if not i or i.otype.value != "file":
                return None
            b = io.BytesIO()
            p.download(i.oid, b)
            return b.getvalue()

        def user(side, op, k):
            target = {"write_a": "/a", "delete_a": "/a"}.get(op)
            before = lab.user(lambda: content_at(side, target)) if target else None
            d = h.user(side, op, b"v%d" % k)
            if d[0] in ("create", "write"):
                live[d[2]] = d[1]
                if d[0] == "write" and before is not None:
                    live.pop(before, None)
            elif d[0] == "delete" and before is not None:
                live.pop(before, None)
            elif d[0] == "mkdir":
                dirs[d[1]] = True
            elif d[0] in ("rendir", "rmdir"):
                dirs.clear()
                dirs["-"] = False
            if d[0] not in ("noop", "failed"):
                sides.add(side)
            return d
        try:
            first = params.get("first")
            side, op = first if first else (e.choose("side", 2), OPS[e.choose("op", len(OPS))])
            user(side, op, 0)
            # the engine works for a solver-chosen number of steps, then the process stops at that step boundary
            ncut = e.choose("cut", params["maxcut"] + 1)
            for j in range(ncut):
                s = e.choose("step", 3)
                h.hist.append("s%d" % s)
                h.step(s)
            if params.get("midbatch"):
                # a stop request lands while an intake batch is being applied: at the k-th event handed over by events()
                sd = e.choose("batch_side", 2)
                extra = OPS[e.choose("op", len(OPS))]
                user(sd, extra, 7)                      # make sure that side's batch holds at least this event (plus what is still pending)
                kk = e.choose("stop_at_event", 3)
                p_ = lab.p[sd]
                orig_events = p_.events
                em = lab.cs.emgrs[sd]

                def ev():
                    for i, x in enumerate(orig_events()):
                        if i == kk:
                            em.stop(forever=True, wait=False)
                        yield x
                p_.events = ev
                h.hist.append("MIDBATCH side=%d at-event=%d" % (sd, kk))
                try:
                    lab.step(sd)
                finally:
                    p_.events = orig_events
            h.hist.append("STOP")
            lab.stop_engine()
            for k in range(params["offline"]):
                side2 = e.choose("side", 2)
                op2 = OPS[e.choose("op", len(OPS))]
                user(side2, op2, k + 1)
            damage(lab.storage, variant)
            n0 = len(lab.calls)
            lab.restart()
            h.hist.append("RESTART:" + variant)
            h.drain()
            if params.get("again"):
                # a third engine generation over the storage the second one left behind: stop, one more offline operation, restart (storage untouched)
                lab.stop_engine()
                side3 = e.choose("side", 2)
                op3 = OPS[e.choose("op", len(OPS))]
                user(side3, op3, 9)
                lab.restart()
                h.hist.append("RESTART-AGAIN")
                h.drain()
            tl, tr = lab.tree(0), lab.tree(1)
            info = dict(local=show(tl), remote=show(tr), variant=variant)
            after = lab.calls[n0:]
            re = [c for c in after if c[1] in ("create", "upload") and any("keep" in str(x) for x in c[2])]
            if re:
                raise Fail("a file that was in sync and untouched was transferred again after the restart", calls=re[:3], symptom="retransfer", **info)
            if not params.get("empty") and (tl.get("/keep") != b"keep" or tr.get("/keep") != b"keep"):
                raise Fail("an untouched synchronised file changed across the restart", symptom="keep-changed", **info)
            if variant == "intact":
                if strip_conflicted(tl) != strip_conflicted(tr):
                    raise Fail("roots differ at quiescence after the restart", symptom="diverged", **info)
                if len(sides) <= 1 and any(".conflicted" in k for k in list(tl) + list(tr)):
                    raise Fail("'.conflicted' artefact after a one-sided history with a restart", symptom="conflicted-artefact", **info)
            else:
                # walk fallback: everything created or modified before or during the outage reaches the other side
                # (deletions made while stopped cannot be seen by a walk and are not required to propagate)
                parked = [v for t in (tl, tr) for k, v in t.items() if ".conflicted" in k]
                for content, pth in live.items():
                    if content in parked:
                        continue          # the loser of a same-path conflict: kept under a '.conflicted' name, a permitted one-sided extra
                    for t, name in ((tl, "local"), (tr, "remote")):
                        if not any(v == content for v in t.values()):
                            raise Fail("content created/modified before or during the outage did not reach both sides after cursor loss",
                                       missing=pth, on=name, symptom="not-propagated", **info)
                if dirs.get("-", True):
                    for pth in dirs:
                        if pth != "-" and (pth not in tl or pth not in tr):
                            raise Fail("a folder made before or during the outage did not reach both sides after cursor loss", missing=pth, symptom="not-propagated", **info)
        except Fail as f:
            return result_fail(h, f, params, {"variant": variant})
        finally:
            if lab.cs is not None:
                lab.stop_engine()
        return {"ok": True, "key": repr(h.hist), "nontrivial": h.real_ops > 0}
    return fn


from props._cold import cold_factory  # noqa: E402
HARNESSES = {"restart": _factory, "cold-stop": cold_factory}


def replay(harness, params, model):
    return std_replay(HARNESSES[harness], harness, params, model)


def signature(harness, params, rec):
    sd = sig_from_rec(params, rec)
    info = rec.get("info") or {}
    if info.get("symptom"):
        sd["symptom"] = info["symptom"]
    elif isinstance(sd.get("symptom"), str) and sd["symptom"].startswith("engine not quiet"):
        sd["symptom"] = "no-quiescence"
    sd["variant"] = params["variant"]
    return sd


def jobs(tier):
    q = tier == "quick"
    out = []
    for f in (("oid", "path") if q else ("oid", "path", "mixed")):
        # first start over accounts that already hold content: a stop request inside the start-up walk, then a restart
        out.append({"harness": "cold-stop", "params": {"flavour": f, "mode": "stop", "pre": 1 if q else 2, "post": 1 if q else 2, "maxobj": 5},
                    "label": "%s/cold-start/stop-inside-walk" % f})
        # three generations: the second restart happens over whatever the first one (with the cursor removed or rejected) wrote
        for v in VARIANTS:
            if v != "intact" and (not q or f == "oid"):
                for side in ((0,) if q else (0, 1)):
                    out.append({"harness": "restart", "params": {"flavour": f, "variant": v, "maxcut": 1, "offline": 1, "first": [side, "create_b"], "again": True},
                                "label": "%s/%s/three-generations/first=%d:create_b" % (f, v, side)})
        # the very first session: stop after 0..3 steps of an otherwise empty pair, one offline operation on either side, restart over intact storage
        for side in (0, 1):
            out.append({"harness": "restart", "params": {"flavour": f, "variant": "intact", "maxcut": 3, "offline": 1, "first": [side, "create_b"], "empty": True},
                        "label": "%s/intact/first-session/first=%d:create_b" % (f, side)})
        for v in VARIANTS:
            for side in (0, 1):
                for op in OPS:
                    out.append({"harness": "restart", "params": {"flavour": f, "variant": v, "maxcut": 2 if q else 3, "offline": 1, "first": [side, op]},
                                "label": "%s/%s/first=%d:%s" % (f, v, side, op)})
                    if v == "intact" and f in ("oid", "path"):
                        out.append({"harness": "restart", "params": {"flavour": f, "variant": v, "maxcut": 1, "offline": 0, "midbatch": True, "first": [side, op]},
                                    "label": "%s/%s/stop-mid-batch/first=%d:%s" % (f, v, side, op)})
                    if not q and f in ("oid", "path"):
                        out.append({"harness": "restart", "params": {"flavour": f, "variant": v, "maxcut": 1, "offline": 2, "first": [side, op]},
                                    "label": "%s/%s/2-offline/first=%d:%s" % (f, v, side, op)})
    return out


def meta(tier):
    return {
        "explanation": "M2: one user operation, then 0..2 (thorough 0..4) solver-chosen engine steps, then the process stops at that step boundary (nothing flushed, the providers' in-memory "
                       "cursor position is lost), 1 (2) solver-chosen operations while stopped, optional damage to the stored cursor (removed / replaced by a value the provider rejects), a new "
                       "engine over the same storage and accounts, drain. Oracles: intact storage - both roots equal (modulo '.conflicted'), no '.conflicted' for one-sided histories, a synced "
                       "untouched file is neither changed nor transferred again; cursor removed/rejected - everything created or modified before or during the outage is on both sides, the "
                       "untouched file is not re-transferred (deletions during the outage are not required to propagate: a walk cannot see them).",
        "bounds": {"operations": OPS, "cut": "0..2 (0..4) engine steps after the first operation", "offline operations": "1 (thorough: also 2 with a cut of 0..1 steps on two flavours)", "variants": VARIANTS, "flavours": "oid, path (thorough + mixed, case-insensitive)"},
        "symbolic": ["first operation (split over jobs), cut position and the steps before it, offline operations"],
        "outside": ["SqliteStorage file durability (C09 covers its map semantics)", "process death in the middle of a step (C07); a graceful stop request landing inside an intake batch IS covered (stop-mid-batch jobs)", "longer histories"],
        "stubs": ["engine lab determinisation; the accounts' event logs persist across the restart, the provider objects' cursor position is reset to 'latest'"],
        "assumptions": ["a provider account keeps its event log across client restarts (as cloud providers with server-side cursors do)"],
    }
