"""C07 crash consistency: the process dies before any storage write or after any engine-issued provider write"""
import io
from props import _lab
from props._lab import Lab, SymEnv, show, strip_conflicted
from props._hist import History, Fail, result_fail, sig_from_rec, std_replay

PROP = "C07"
LEVEL = "other"
SELFTEST_PARTS = ("num",)
WALL_BUDGET = {"quick": 3600, "thorough": 14400}
OPS = ["create_b", "write_a", "delete_a", "rename_a_b", "mkdir_d", "rmdir_d", "move_a_d", "rendir_d_e", "mkdir_d_s", "create_d_a"]


class Crash(BaseException):
    """the process dies here: nothing after this point runs, nothing is flushed"""


def _factory(params, env=None):
    def fn():
        e = env or SymEnv()
        _lab.reset()
        lab = Lab(params["flavour"])
        lab.user(lambda: (lab.p[0].create("/L/keep", io.BytesIO(b"keep")), lab.p[0].create("/L/a", io.BytesIO(b"base-a")), lab.p[0].mkdir("/L/d")))
        if lab.drain() is None:
            return {"ok": False, "info": {"why": "base tree did not become quiet"}, "sigdata": {"symptom": "base-not-quiet"}}
        h = History(lab, e)
        live = {}
        sides = set()

        def content_at(side, rel):
            p = lab.p[side]
            i = p.info_path(lab.roots[side] + rel)
            if not i or i.otype.value != "file":
                return None
            b = io.BytesIO()
            p.download(i.oid, b)
            return b.getvalue()
        live[b"base-a"] = "/a"
        live[b"keep"] = "/keep"
        try:
            first = params.get("first")
            for k in range(params["nops"]):
                side, op = first if (k == 0 and first) else (e.choose("side", 2), OPS[e.choose("op", len(OPS))])
                target = {"write_a": "/a", "delete_a": "/a"}.get(op)
                before = lab.user(lambda: content_at(side, target)) if target else None
                d = h.user(side, op, b"v%d" % k)
                if d[0] in ("create", "write"):
                    live[d[2]] = d[1]
                if d[0] in ("write", "delete") and before is not None:
                    live.pop(before, None)
                if d[0] not in ("noop", "failed"):
                    sides.add(side)
            # crash instant: before the n-th storage write, or right after the n-th engine-issued provider write
            kind = e.choose("crash_kind", 2)
            n = 1 + e.choose("crash_at", params["maxcrash"])
            count = [0]

            def storage_hook(k, tag, eid):
                if kind == 0:
                    count[0] += 1
                    if count[0] == n:
                        raise Crash("before storage %s #%d" % (k, n))

            def provider_hook(rec):
                if kind == 1:
                    count[0] += 1
                    if count[0] == n:
                        raise Crash("after provider %s on side %d #%d" % (rec[1], rec[0], n))
            lab.storage.hook = storage_hook
            lab.after_engine_write = provider_hook
            crashed = None
            try:
                h.drain()
            except Crash as c:
                crashed = str(c)
            lab.storage.hook = None
            lab.after_engine_write = None
            if crashed is None:
                # the run has fewer writes than n: not a crash path (pruned from the claim)
                return {"ok": True, "key": None, "nontrivial": False}
            h.hist.append("CRASH " + crashed)
            # the state lock may be held by the dying thread of control: a new process has a new lock
            lab.restart()
            h.drain()
            if params.get("after"):
                # life goes on after the recovery: one more user operation (what the crash left half-recorded must not swallow it)
                side3 = e.choose("side", 2)
                op3 = OPS[e.choose("op", len(OPS))]
                target3 = {"write_a": "/a", "delete_a": "/a"}.get(op3)
                before3 = lab.user(lambda: content_at(side3, target3)) if target3 else None
                d3 = h.user(side3, op3, b"v9")
                if d3[0] in ("create", "write"):
                    live[d3[2]] = d3[1]
                if d3[0] in ("write", "delete") and before3 is not None:
                    live.pop(before3, None)
                if d3[0] not in ("noop", "failed"):
                    sides.add(side3)
                h.drain()
            tl, tr = lab.tree(0), lab.tree(1)
            info = dict(local=show(tl), remote=show(tr), crash=crashed)
            if strip_conflicted(tl) != strip_conflicted(tr):
                raise Fail("roots differ at quiescence after crash and restart", symptom="diverged", **info)
            present = set(v for v in list(tl.values()) + list(tr.values()) if v is not None)
            lost = sorted(v.decode() for v in live if v not in present)
            if lost:
                raise Fail("user content lost across crash and restart", lost=lost, symptom="version-lost", **info)
            if len(sides) <= 1 and any(".conflicted" in k for k in list(tl) + list(tr)):
                raise Fail("'.conflicted' artefact after a one-sided history with a crash", symptom="conflicted-artefact", **info)
            dup = [k for t in (tl, tr) for k in t if k not in ("/keep",) and t[k] == b"keep"]
            if dup or tl.get("/keep") != b"keep" or tr.get("/keep") != b"keep":
                raise Fail("an untouched synchronised file was duplicated or changed", symptom="keep-changed", **info)
        except Fail as f:
            return result_fail(h, f, params)
        finally:
            lab.storage.hook = None
            lab.after_engine_write = None
            if lab.cs is not None:
                lab.stop_engine()
        return {"ok": True, "key": repr(h.hist), "nontrivial": True}
    return fn


from props._cold import cold_factory  # noqa: E402
HARNESSES = {"crash": _factory, "cold-crash": cold_factory}


def replay(harness, params, model):
    return std_replay(HARNESSES[harness], harness, params, model)


def signature(harness, params, rec):
    sd = sig_from_rec(params, rec)
    info = rec.get("info") or {}
    if info.get("symptom"):
        sd["symptom"] = info["symptom"]
    elif isinstance(sd.get("symptom"), str) and sd["symptom"].startswith("engine not quiet"):
        sd["symptom"] = "no-quiescence"
    c = info.get("crash") or ""
    sd["crash"] = "storage" if "storage" in c else ("provider" if "provider" in c else None)
    return sd


def jobs(tier):
    q = tier == "quick"
    out = []
    for f in (("oid", "path") if q else ("oid", "path", "mixed")):
        # first start over accounts that already hold content: the process dies at any storage / provider write of the first run (start-up walk included)
        out.append({"harness": "cold-crash", "params": {"flavour": f, "mode": "crash", "maxcrash": 45}, "label": "%s/cold-start/crash" % f})
        for side in (0, 1):
            for op in ("write_a", "create_b", "rename_a_b", "move_a_d"):
                out.append({"harness": "crash", "params": {"flavour": f, "nops": 1, "maxcrash": 10, "first": [side, op], "after": True},
                            "label": "%s/1-op/crash/then-one-more-operation/first=%d:%s" % (f, side, op)})
        for side in (0, 1):
            for op in OPS:
                n = 2 if (q or f != "oid") else 3
                out.append({"harness": "crash", "params": {"flavour": f, "nops": n, "maxcrash": 10 if q else 14, "first": [side, op]},
                            "label": "%s/%d-ops/first=%d:%s" % (f, n, side, op)})
    return out


def meta(tier):
    return {
        "explanation": "M2 with the crash instant as a solver variable: after a history of 1-2 operations the engine drains while a counter watches every Storage create/update/delete "
                       "(the process dies immediately BEFORE the n-th one) or every engine-issued provider create/upload/rename/delete/mkdir (dies immediately AFTER the n-th one); n and the "
                       "kind are bounded z3 integers, values past the run's number of writes are pruned. The crash unwinds as a BaseException; a new engine is started over whatever storage "
                       "and provider contents existed at that instant. Oracles after the second quiescence: roots equal (modulo '.conflicted'), no user content lost, no '.conflicted' for "
                       "one-sided histories, the untouched synced file neither duplicated nor changed.",
        "bounds": {"operations": OPS, "history": "2 operations (thorough 3)", "crash instants": "every storage write and every engine provider write up to the 10th (14th) of the run"},
        "symbolic": ["operations", "crash kind", "crash index"],
        "outside": ["crashes inside a provider or storage call (torn writes)", "SQLite file durability", "crashes during the restarted run"],
        "stubs": ["engine lab determinisation; restart as in C06 (account event logs persist, in-memory cursor position lost)"],
        "assumptions": ["storage and provider writes are individually atomic"],
    }
