"""C01 two-way convergence: solver-chosen 2..3-operation histories and schedules through the real engine"""
from props import _lab
from props._lab import Lab, SymEnv, do_op, base_tree, show, strip_conflicted, replay_driver

PROP = "C01"
LEVEL = "other"
SELFTEST_PARTS = ("num",)
WALL_BUDGET = {"quick": 3600, "thorough": 14400}
OPS = ["create_a", "create_b", "write_a", "delete_a", "rename_a_b", "mkdir_d", "rmdir_d", "move_a_d", "rendir_d_e",
       "mkdir_d_s", "create_d_a"]
OPS_EXT = OPS + ["mkdir_a", "rmdir_a", "rename_a_c"]          # a folder taking a file's name; a second rename target


def norm_hist(hist):
    """history without schedule and contents: what a known finding is identified by"""
    return [[h[0]] + [x for x in h[1:] if isinstance(x, str)] for h in hist if isinstance(h, tuple) and h[1] != "noop"]


# fixed multi-step stories (side, operation) whose schedules are explored more deeply: slots after each operation; 'flip' variants swap the sides
STORIES = {
    # (operations as (side, op), gap after each: n fine slots | ("Q", n) run until quiet or n fine slots, base tree)
    "create-in-folder-renamed-by-peer-then-edit": ([(0, "create_d_n"), (1, "rendir_d_e"), (0, "write_d_n")], [1, 2, 1], 2),
    "create-in-folder-removed-by-peer-then-edit": ([(0, "create_d_n"), (1, "rmdir_d"), (0, "write_d_n")], [1, 2, 1], 2),
    "folder-renamed-recreated-child-moved-back": ([(0, "rendir_d_e"), (0, "mkdir_d"), (0, "mv:/e/a:/d/a")], [("Q", 1), 1, 2], 3),
    "child-renamed-then-folder-peer-edits-child": ([(0, "mv:/d/a:/d/b"), (0, "rendir_d_e"), (1, "write_d_a")], [1, 2, 1], 3),
    "edit-vs-rename-then-edit": ([(0, "write_a"), (1, "rename_a_b"), (0, "write_a")], [1, 2, 1], 1),
    "renamed-and-back-peer-edits": ([(0, "rename_a_b"), (0, "mv:/b:/a"), (1, "write_a")], [("Q", 2), 1, 1], 1),
    "edited-synced-edited-on-both": ([(0, "write_a"), (1, "write_a"), (0, "write_a")], [("Q", 1), 2, 1], 1),
    "deleted-synced-recreated-on-peer": ([(0, "delete_a"), (1, "create_a"), (0, "create_a")], [("Q", 1), 2, 1], 1),
    "moved-into-folder-peer-renames-folder": ([(0, "move_a_d"), (1, "rendir_d_e"), (0, "write_d_a")], [("Q", 1), 2, 1], 2),
    "both-rename-same-file-differently-then-edit": ([(0, "rename_a_b"), (1, "rename_a_c"), (0, "write_b")], [1, 2, 1], 1),
    "folder-renamed-with-new-child-while-peer-empties-and-removes-it": ([(0, "create_d_n"), (0, "rendir_d_e"), (1, "delete_d_a"), (1, "rmdir_d")], [1, 0, 0, 2], 3),
    "renamed-onto-a-deleted-name": ([(0, "delete_b"), (0, "mv:/a:/b"), (1, "write_a")], [("Q", 1), 2, 1], 3),
    "swap-through-temporary-name-peer-edits": ([(0, "mv:/a:/t"), (0, "mv:/b:/a"), (0, "mv:/t:/b"), (1, "write_a")], [1, 1, 1, 1], 3),
}


def _factory(params, env=None):
    def fn():
        e = env or SymEnv()
        _lab.reset()
        lab = Lab(params["flavour"])
        story = STORIES[params["story"]] if params.get("story") else None
        if base_tree(lab, story[2] if story else params["base"]) is None:
            return {"ok": False, "info": {"why": "base tree did not become quiet"}, "sigdata": {"symptom": "base-not-quiet"}}
        hist = []
        real = 0
        first = params.get("first")
        prefix = params.get("prefix") or ([first] if first is not None else [])
        mid = _lab.MidStep(lab) if params.get("midstep") else None
        if story:
            prefix = [[sd ^ (1 if params.get("flip") else 0), op] for sd, op in story[0]]
        for k in range(len(prefix) if story else params["nops"]):
            if k < len(prefix):
                side, op = prefix[k]
            else:
                side = e.choose("side", 2)
                ops = OPS_EXT if params.get("ext") else OPS
                op = ops[e.choose("op", len(ops))]
            if mid and k == params["nops"] - 1:
                # the last operation lands inside an engine step: just before the k-th provider call of one sync step (or of that side's intake)
                which = (2, side)[e.choose("mid_in", 2)]
                at = 1 + e.choose("mid_at", params["midstep"])
                box = []
                mid.arm(at, lambda: box.append(do_op(lab, side, op, b"v%d" % k)))
                lab.step(which)
                if not box:
                    mid.fn = None
                    box.append(do_op(lab, side, op, b"v%d" % k))      # the step made fewer calls: the operation lands right after it
                    hist.append("mid:after-step-%d" % which)
                else:
                    hist.append("mid:step-%d-before-call-%d(%s)" % (which, at, mid.fired[1]))
                d = box[0]
            else:
                d = do_op(lab, side, op, b"v%d" % k)
            hist.append((side,) + tuple(d))
            if d[0] not in ("noop", "failed"):
                real += 1
            nslots = story[1][k] if story else (params["slotsper"][k] if params.get("slotsper") else params["slots"])
            if not isinstance(nslots, int):
                # ("Q", n): the solver chooses between letting the engine run until quiet and n fine slots
                if e.choose("gap", 2) == 0:
                    hist.append("Q")
                    if lab.drain() is None:
                        return {"ok": False, "info": {"why": "engine not quiet after 40 fair rounds", "hist": hist},
                                "sigdata": {"flavour": params["flavour"], "base": story[2] if story else params["base"], "ops": norm_hist(hist), "symptom": "no-quiescence"}}
                    nslots = 0
                else:
                    nslots = nslots[1]
            for j in range(nslots):
                if params.get("slotmode") == "round":       # coarser schedule: nothing, or one fair round
                    s = e.choose("round", 2)
                    hist.append("r%d" % s)
                    if s:
                        for o in (0, 1, 2):
                            lab.step(o)
                    continue
                s = e.choose("slot", 4)
                hist.append("s%d" % s)
                if s < 3:
                    lab.step(s)
        q = lab.drain()
        key = repr(hist)
        sd = {"flavour": params["flavour"], "base": story[2] if story else params["base"], "ops": norm_hist(hist)}
        if q is None:
            return {"ok": False, "info": {"why": "engine not quiet after 40 fair rounds", "hist": hist}, "sigdata": dict(sd, symptom="no-quiescence")}
        tl, tr = lab.tree(0), lab.tree(1)
        lab.stop_engine()
        if strip_conflicted(tl) != strip_conflicted(tr):
            return {"ok": False, "info": {"why": "roots differ at quiescence", "hist": hist, "local": show(tl), "remote": show(tr)},
                    "sigdata": dict(sd, symptom="diverged")}
        return {"ok": True, "key": key, "nontrivial": real > 0}
    return fn


def _corrupt_factory(params, env=None):
    """liveness with one copy becoming unreadable (the fault of C02's family): the engine must still go quiet"""
    from props import c02
    p = dict(params)
    p["liveness"] = True
    return c02._factory(p, env)


HARNESSES = {"hist": _factory, "corrupt": _corrupt_factory}


def replay(harness, params, model):
    if harness == "corrupt":
        from props._hist import std_replay
        r = std_replay(_corrupt_factory, harness, params, model)
        if r.get("reproduced") and isinstance(r.get("sig"), dict):
            if str(r["sig"].get("symptom", "")).startswith("engine not quiet"):
                r["sig"]["symptom"] = "no-quiescence"
        return r
    r = replay_driver(_factory, params, model)
    if r.get("reproduced"):
        r["sig"] = r.get("sigdata") or {"symptom": r.get("symptom"), "at": r.get("at"), "flavour": params["flavour"]}
    return r


def signature(harness, params, rec):
    info = rec.get("info") or {}
    if harness == "corrupt":
        from props import c02
        return c02.signature("loss", params, rec)
    if rec.get("status") == "exc":
        return {"flavour": params["flavour"], "symptom": rec.get("exc")}
    return {"flavour": params["flavour"], "base": params.get("base"), "ops": norm_hist([tuple(h) if isinstance(h, list) else h for h in info.get("hist", [])]),
            "symptom": {"roots differ at quiescence": "diverged", "engine not quiet after 40 fair rounds": "no-quiescence"}.get(info.get("why"), info.get("why"))}


def jobs(tier):
    out = []
    focus = []
    if tier == "quick":
        combos = [("oid", 1, 2, 1), ("oid", 2, 2, 1), ("path", 2, 2, 1)]
        # deeper schedules (2 slots) on the conflict shapes where the known findings live
        focus = [(f, 1, 2, 2, [s, "create_b"]) for f in ("oid",) for s in (0, 1)]
    else:
        combos = []
    if tier != "quick":
        combos = [(f, b, 2, 2) for f in ("oid", "path") for b in (2,)] + [(f, 1, 2, 1) for f in ("oid", "path")] + [("mixed", 2, 2, 1)] + \
                 [(f, b, 2, 1) for f in ("oid", "path", "mixed") for b in (0,)] + \
                 [(f, b, 2, 1) for f in ("oid-ci", "oid-filt") for b in (1, 2)] + \
                 [(f, b, 3, "round") for f in ("oid", "path") for b in (2,)]
    for f, b, n, s in combos:
        if s == "round":
            for side in (0, 1):
                for op in OPS:
                    out.append({"harness": "hist", "params": {"flavour": f, "base": b, "nops": n, "slots": 1, "slotmode": "round", "first": [side, op]},
                                "label": "%s/base%d/%dops/1round/first=%d:%s" % (f, b, n, side, op), "min_leaves": 1})
            continue
        # split by the first operation so that the path tree starts 22-wide (work distribution)
        for side in (0, 1):
            for op in OPS:
                out.append({"harness": "hist", "params": {"flavour": f, "base": b, "nops": n, "slots": s, "first": [side, op]},
                            "label": "%s/base%d/%dops/%dslots/first=%d:%s" % (f, b, n, s, side, op), "min_leaves": 1})
    for f, b, n, s, first in focus:
        out.append({"harness": "hist", "params": {"flavour": f, "base": b, "nops": n, "slots": s, "first": first},
                    "label": "%s/base%d/%dops/%dslots/first=%d:%s" % (f, b, n, s, first[0], first[1])})
    if True:
        # three-operation shapes of the recorded findings F13 / F18 (two operations fixed, the third free)
        for f in ("oid", "path"):
            for pre in ([[0, "rename_a_b"], [0, "create_a"]], [[1, "rename_a_b"], [1, "create_a"]], [[0, "rendir_d_e"], [1, "rmdir_d"]], [[1, "rendir_d_e"], [0, "rmdir_d"]],
                        [[0, "rename_a_c"], [1, "rename_a_b"]], [[1, "rename_a_c"], [0, "rename_a_b"]]):
                out.append({"harness": "hist", "params": {"flavour": f, "base": 2, "nops": 3, "slots": 1, "prefix": pre, "ext": pre[0][1] == "rename_a_c"},
                            "label": "%s/base2/3ops/prefix=%s" % (f, "+".join("%d:%s" % (a, b) for a, b in pre))})
    for f in ("oid", "path", "mixed"):        # 'mixed' (path ids locally, object ids remotely) is the pairing of a local folder with a cloud account
        for name in STORIES:
            for flip in (False, True):
                out.append({"harness": "hist", "params": {"flavour": f, "story": name, "flip": flip}, "label": "%s/story=%s%s" % (f, name, "/flipped" if flip else "")})
    # finer interleaving: the second operation happens inside an engine step (before its k-th provider call)
    for f in (("oid",) if tier == "quick" else ("oid", "path")):
        for side in (0, 1):
            for op in OPS:
                out.append({"harness": "hist", "params": {"flavour": f, "base": 2, "nops": 2, "slots": 1, "slotsper": [1, 0], "midstep": 2 if tier == "quick" else 5, "first": [side, op]},
                            "label": "%s/base2/2ops/second-inside-a-step/first=%d:%s" % (f, side, op)})
    # a folder taking a deleted file's name; one copy becoming unreadable while the other side has an unsynced edit
    for f in (("oid", "path") if tier == "quick" else ("oid", "path", "mixed")):
        for side in (0, 1):
            out.append({"harness": "hist", "params": {"flavour": f, "base": 1, "nops": 2 if tier == "quick" else 3, "slots": 1, "first": [side, "delete_a"], "ext": True},
                        "label": "%s/file-vs-folder/first=%d:delete_a" % (f, side)})
            for op in ("write", "corrupt"):
                out.append({"harness": "corrupt", "params": {"flavour": f, "base": 1, "nops": 2, "slots": 1 if tier == "quick" else 2, "first": [side, op]},
                            "label": "%s/unreadable-copy/first=%d:%s" % (f, side, op)})
    return out


def meta(tier):
    return {
        "explanation": "M2 choice-symbolic bounded exploration: the operation history (side, operation) and the schedule slots are bounded "
                       "solver integers; z3 enumerates every satisfying assignment through branch forking, the real CloudSync/SyncManager/"
                       "EventManager/SyncState run over two real MockProviders on each, and the convergence oracle is evaluated at quiescence. "
                       "Exhaustive inside the bounds; assurance is that of exhaustive bounded exploration, not of a proof.",
        "bounds": {"operations": OPS, "history_length": "2 (thorough: also 3 on two flavours)", "schedule": "1 slot after each user operation (thorough: 2), each one of "
                   "{local intake, remote intake, sync step, nothing}, then fair round-robin drain, 40 rounds = liveness bound",
                   "flavours": "quick oid, path; thorough + mixed, case-insensitive, filtered", "base_trees": "file /a; file /a + folder /d (thorough + empty)"},
        "symbolic": ["side and operation of every user step", "schedule slot choices"],
        "outside": ["histories longer than the bound", "names outside the pool /a /b /d /d/a /d/s /e", "other set-iteration orders and id allocation orders",
                    "concurrent threads (C15)"],
        "stubs": ["virtual clock (each read advances 1 s); aging = 0", "MockFSObject ids / connection ids / temp names from counters", "SyncEntry.__hash__ = creation order",
                  "logging disabled, debug_sig constant", "storage: dict-backed Storage defined in the harness"],
        "assumptions": ["MockProvider is a faithful provider (C16 checks it separately)"],
    }
