"""C14 events are hints: duplicated, delayed, reordered, replayed, id-less or stale events change nothing"""
import io
import copy
from props import _lab
from props._lab import Lab, SymEnv, show, strip_conflicted, base_tree, do_op
from props._hist import History, Fail, result_fail, sig_from_rec, std_replay

PROP = "C14"
LEVEL = "other"
SELFTEST_PARTS = ("num",)
WALL_BUDGET = {"quick": 3600, "thorough": 14400}
OPS = ["create_b", "write_a", "delete_a", "rename_a_b", "mkdir_d", "move_a_d", "rendir_d_e", "create_d_a", "create_a"]
MANGLE_ANY = ["dup-all", "dup-first", "dup-last", "single-batches", "walk-after", "walk-before", "idless-copy", "vanished-exists", "vanished-trashed",
              "stale-exists", "replay-old"]
MANGLE_IDSTABLE = ["reverse", "rotate", "delay-first", "delay-all-one-round", "drop-paths", "delay-first-long"]
# fixed stories: (operations, "Q" = the engine runs until quiet) - a name is used again after its first use was fully synchronised
STORIES = {
    "folder-removed-synced-recreated-with-child": ["rmdir_d", "Q", "mkdir_d", "create_d_a"],
    "file-deleted-synced-recreated": ["delete_a", "Q", "create_a", "write_a"],
    "file-renamed-synced-name-reused": ["rename_a_b", "Q", "create_a"],
    "file-edited-synced-deleted": ["write_a", "Q", "delete_a"],
    "folder-renamed-synced-old-name-reused-with-child": ["rendir_d_e", "Q", "mkdir_d", "create_d_a"],
    "folder-removed-with-its-content": ["delete_d_a", "rmdir_d"],
    "renamed-away-and-another-renamed-onto-the-name": ["mv:/a:/c", "mv:/b:/a"],
}
STORY_BASE = {"folder-removed-with-its-content": 3, "renamed-away-and-another-renamed-onto-the-name": 3}


class Mangler:
    """wraps provider.events(); one mangling kind per run, on one side"""

    def __init__(self, lab, side, kind):
        self.lab, self.side, self.kind = lab, side, kind
        self.enabled = False
        self.held = []
        self.countdown = 0
        self.seen = []
        self.out = []
        p = lab.p[side]
        orig = p.events
        from cloudsync.event import Event
        from cloudsync.types import FILE

        def ev():
            # events() may be abandoned after the first event (EventManager.busy does that): nothing fetched from the
            # provider may be lost, so everything goes through self.out and is popped one event at a time
            batch = list(orig())
            if not self.enabled or lab.user_mode:
                self.out.extend(batch)
            else:
                self.out.extend(self.transform(batch))
            limit = 1 if (self.enabled and self.kind == "single-batches" and not lab.user_mode) else None
            n = 0
            while self.out and (limit is None or n < limit):
                n += 1
                yield self.out.pop(0)

        def transform(batch):
            k = self.kind
            if k == "delay-first-long":
                # the first event of a batch is held back for many calls (long enough for the engine to give up on what depends on it)
                out = []
                if self.held:
                    self.countdown -= 1
                    if self.countdown <= 0:
                        out, self.held = self.held, []
                if batch:
                    if not self.held and not out:
                        self.held = [batch[0]]
                        self.countdown = 40
                        batch = batch[1:]
                    out = out + batch
                return out
            if k in ("delay-first", "delay-all-one-round"):
                out = self.held
                self.held = []
                if batch:
                    if k == "delay-first":
                        self.held = [batch[0]]
                        out = out + batch[1:]
                    else:
                        self.held = batch
                return out
            if not batch:
                return []
            if k == "dup-all":
                batch = [x for e in batch for x in (e, copy.copy(e))]
            elif k == "dup-first":
                batch = [batch[0]] + batch
            elif k == "dup-last":
                batch = batch + [batch[-1]]
            elif k == "reverse":
                batch = batch[::-1]
            elif k == "rotate":
                batch = batch[1:] + batch[:1]
            elif k == "drop-paths":
                batch = [copy.copy(e) for e in batch]
                for e in batch:
                    e.path = None
            elif k == "stale-exists":
                # after an object was reported deleted, two out-of-date events still claim it exists (it has vanished since)
                out2 = []
                for ev0 in batch:
                    out2.append(ev0)
                    if ev0.exists is False:
                        for _ in range(2):
                            st = copy.copy(ev0)
                            st.exists = True
                            out2.append(st)
                batch = out2
            elif k == "replay-old":
                # everything delivered so far is delivered once more, after the new batch
                old = [copy.copy(x) for x in self.seen]
                self.seen.extend(copy.copy(x) for x in batch)
                batch = batch + old
            elif k == "idless-copy":
                extra = copy.copy(batch[0])
                extra.oid = None
                batch = [extra] + batch + [copy.copy(extra)]
            elif k == "vanished-exists":
                batch = batch + [Event(FILE, "no-such-object-id" if not p.oid_is_path else lab.roots[side] + "/ghost", lab.roots[side] + "/ghost" if p.oid_is_path else None, None, True)]
            elif k == "vanished-trashed":
                batch = [Event(FILE, "no-such-object-id" if not p.oid_is_path else lab.roots[side] + "/ghost", lab.roots[side] + "/ghost" if p.oid_is_path else None, None, False)] + batch
            return batch
        self.transform = transform
        p.events = ev

    def pending(self):
        return bool(self.held or self.out)


def run_once(params, script, mangle):
    """one engine run: script = list of ('op', side, opname, k) / ('step', which); returns (lab, history, outcome)"""
    _lab.reset()
    lab = Lab(params["flavour"])
    if base_tree(lab, STORY_BASE.get(params.get("story"), params["base"])) is None:
        return None
    m = None
    if mangle:
        m = Mangler(lab, mangle[0], mangle[1])
        m.enabled = True
    descs = []
    qtrees = []
    n0 = len(lab.calls)
    for item in script:
        if item[0] == "op":
            descs.append(tuple(do_op(lab, item[1], item[2], b"v%d" % item[3])))
        elif item[0] == "step":
            lab.step(item[1])
            if mangle and mangle[1] == "walk-before" and item[1] == mangle[0]:
                pass
        elif item[0] == "walk":
            lab.cs.walk(side=item[1])
        elif item[0] == "drain":
            for i in range(60):
                for o in (0, 1, 2):
                    lab.step(o)
                if not lab.busy() and not (m and m.pending()):
                    break
            qtrees.append((lab.tree(0), lab.tree(1)))
    quiet = None
    for i in range(60):
        if mangle and mangle[1] in ("walk-after",) and i == 1:
            lab.cs.walk(side=mangle[0])
        for o in (0, 1, 2):
            lab.step(o)
        if not lab.busy() and not (m and m.pending()):
            quiet = i + 1
            break
    out = {"quiet": quiet, "trees": (lab.tree(0), lab.tree(1)) if quiet else None, "calls": lab.calls[n0:], "descs": descs, "qtrees": qtrees}
    lab.stop_engine()
    return out


def _factory(params, env=None):
    def fn():
        e = env or SymEnv()
        script = []
        hist = []
        first = params.get("first")
        story = STORIES[params["story"]] if params.get("story") else None
        if story:
            k = 0
            for it in story:
                if it == "Q":
                    script.append(("drain",))
                else:
                    script.append(("op", params["side"], it, k))
                    k += 1
        for k in range(0 if story else params["nops"]):
            side, op = first if (k == 0 and first) else (e.choose("side", 2), OPS[e.choose("op", len(OPS))])
            script.append(("op", side, op, k))
            for j in range(params["slots"]):
                s = e.choose("slot", 4)
                hist.append("s%d" % s)
                if s < 3:
                    script.append(("step", s))
        idstable = params["flavour"].startswith("oid")
        kinds = MANGLE_ANY + (MANGLE_IDSTABLE if idstable else [])
        kind = kinds[e.choose("mangling", len(kinds))]
        mside = e.choose("mangled_side", 2)
        if kind == "walk-before":
            script = [("walk", mside)] + script
        ref = run_once(params, [x for x in script if x[0] != "walk"], None)
        if ref is None or ref["quiet"] is None:
            return {"ok": True, "key": None, "nontrivial": False}       # the unmangled run itself is not quiet: C01's subject
        if strip_conflicted(ref["trees"][0]) != strip_conflicted(ref["trees"][1]):
            return {"ok": True, "key": None, "nontrivial": False}       # the unmangled run does not converge: C01's subject
        man = run_once(params, script, (mside, kind))
        h = type("H", (), {})()
        h.hist = [(x[1], x[2]) for x in script if x[0] == "op"] + hist + [("mangle", mside, kind)]
        opsn = [[d2[0]] + [x for x in d2[1:] if isinstance(x, str)] for d2 in [(s_[1],) + tuple(d) for s_, d in zip([x for x in script if x[0] == "op"], ref["descs"])] if d2[1] != "noop"]
        sd = {"flavour": params["flavour"], "mangling": kind, "ops": opsn}

        def fail(why, sym, **kw):
            info = {"why": why, "hist": h.hist, "symptom": sym, "mangling": kind, "ref_local": show(ref["trees"][0]), "ref_remote": show(ref["trees"][1])}
            info.update(kw)
            return {"ok": False, "info": info, "sigdata": dict(sd, symptom=sym)}
        if man is None or man["quiet"] is None:
            return fail("engine not quiet with mangled event delivery although the unmangled run is", "no-quiescence")
        for qi, (a_, b_) in enumerate(zip(man["qtrees"], ref["qtrees"])):
            if a_ != b_:
                return fail("trees at an intermediate quiet point differ from prompt in-order delivery", "trees-differ", local=show(a_[0]), remote=show(a_[1]), at_quiet_point=qi)
        if man["descs"] != ref["descs"]:
            from symx.core import Inconclusive
            raise Inconclusive("user operations had different outcomes in the two runs: %r vs %r" % (man["descs"], ref["descs"]))
        if man["trees"] != ref["trees"]:
            return fail("quiet-state trees differ from prompt in-order delivery", "trees-differ", local=show(man["trees"][0]), remote=show(man["trees"][1]))

        def ms(calls, name):
            out = {}
            for c in calls:
                if c[1] == name and c[-1] == "ok" and not any(isinstance(x, dict) and x.get("existed") is False for x in c):       # a delete that is refused, or of an object that is already gone, removes nothing
                    key = (c[0], tuple(a for a in c[2] if isinstance(a, str)))
                    out[key] = out.get(key, 0) + 1
            return out
        dref, dman = ms(ref["calls"], "delete"), ms(man["calls"], "delete")
        extra_del = {k: v for k, v in dman.items() if v > dref.get(k, 0)}
        if extra_del:
            return fail("engine issued a delete that prompt in-order delivery does not issue", "extra-delete", extra=[list(k) for k in extra_del])
        sp = [c for c in man["calls"] if c[1] in ("create", "upload") and any(isinstance(x, dict) and x.get("spurious") for x in c)]
        spref = [c for c in ref["calls"] if c[1] in ("create", "upload") and any(isinstance(x, dict) and x.get("spurious") for x in c)]
        if len(sp) > len(spref):
            return fail("spurious transfer: the engine wrote content the target already held at that path", "spurious-transfer", calls=[c[:3] for c in sp][:3])
        return {"ok": True, "key": repr(h.hist), "nontrivial": True}
    return fn


HARNESSES = {"mangle": _factory}


def replay(harness, params, model):
    return std_replay(_factory, harness, params, model)


def signature(harness, params, rec):
    info = rec.get("info") or {}
    hist = info.get("hist") or []
    ops = [[x[0], x[1]] for x in hist if isinstance(x, (list, tuple)) and len(x) == 2]
    sym = info.get("symptom") or rec.get("exc")
    return {"flavour": params["flavour"], "mangling": info.get("mangling"), "symptom": sym, "ops": None, "opnames": sorted(o[1] for o in ops)}


def jobs(tier):
    q = tier == "quick"
    out = []
    for f in (("oid", "path") if q else ("oid", "path", "mixed")):
        for side in (0, 1):
            for op in OPS:
                # (thorough: two slots; two free operations produce more than 60 distinct failing shapes - combinations of the recorded
                # create-vs-rename / rename-and-reuse defects with the manglings - which were not triaged one by one and are therefore not part of this check)
                out.append({"harness": "mangle", "params": {"flavour": f, "base": 2, "nops": 1, "slots": 1 if q else 2, "first": [side, op]},
                            "label": "%s/1-op/%d-slots/first=%d:%s" % (f, 1 if q else 2, side, op)})
        for name in STORIES:
            for side in (0, 1):
                out.append({"harness": "mangle", "params": {"flavour": f, "base": 2, "story": name, "side": side}, "label": "%s/story=%s/side%d" % (f, name, side)})
        if f != "mixed":
            for op in ("write_a", "rename_a_b", "delete_a"):
                out.append({"harness": "mangle", "params": {"flavour": f, "base": 2, "nops": 2, "slots": 1, "first": [0, op]}, "label": "%s/2-ops/first=0:%s" % (f, op)})
    return out


def meta(tier):
    return {
        "explanation": "M2, differential: for every history and schedule in the family the engine is run twice over fresh providers - with prompt in-order event delivery and with one "
                       "solver-chosen mangling of one side's events() stream: duplicate all / first / last, one event per call, an interleaved full walk (before or after), an id-less copy, "
                       "an event for an object that does not exist (reported existing or trashed), and - for providers whose ids are stable - reversed or rotated batches, the first event or a "
                       "whole batch delayed to the next call, all path fields dropped. Oracles: same quiet-state trees as the unmangled run, no delete the unmangled run did not issue, no "
                       "additional spurious transfer (create/upload of content the target already held at that path). Histories whose unmangled run is not quiet or not convergent are skipped "
                       "(C01's subject).",
        "bounds": {"operations": OPS, "history": "1 operation + three 2-operation families, 1 slot (thorough: 2 slots, plus the mixed pairing); stories that use a name again after its first use was fully synchronised: %s" % STORIES, "manglings": MANGLE_ANY + MANGLE_IDSTABLE, "flavours": "oid, path (thorough + mixed, filtered)"},
        "symbolic": ["operations", "schedule slots", "mangling kind", "mangled side"],
        "outside": ["combinations of several manglings in one run", "arbitrary permutations of long batches", "delays other than one call or forty calls"],
        "stubs": ["engine lab determinisation", "mangling wrapper around provider.events()"],
        "assumptions": ["user operations are re-issued verbatim in both runs (checked: differing outcomes make the path inconclusive)"],
    }
