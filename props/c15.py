"""C15 thread safety, decidable part: every mutation of the shared sync state happens while the state lock is held.
Lock ownership at a mutation is a property of one thread's path, so exhausting each entry point's paths within the bound decides
'every read-modify-write of the shared state happens under the lock' for that bound (lockset argument).  Real thread interleavings
are outside a single-thread symbolic executor and are not claimed."""
import io
import sys
from props import _lab
from props._lab import S, Lab, SymEnv, base_tree, do_op
from props._hist import History, Fail, result_fail, std_replay

PROP = "C15"
LEVEL = "other"
SELFTEST_PARTS = ("num",)
WALL_BUDGET = {"quick": 3600, "thorough": 14400}
HOOKS = ("updated", "storage_commit", "forget", "forget_oid", "finished", "split", "mark_changed", "update")
OPS = ["create_b", "write_a", "delete_a", "rename_a_b", "mkdir_d", "rmdir_d", "move_a_d", "rendir_d_e", "mkdir_d_s", "create_d_a"]
API = ["forget", "walk", "busy", "change_count", "nothing"]


class LockMonitor:
    """wraps the state's mutation hooks; records every call made while the current thread does not own state.lock"""

    def __init__(self):
        self.violations = []
        self.saved = {}
        self.state = None
        self.mutations = 0
        self.entry = None          # name of the public entry point being exercised

    def attach(self, lab):
        self.lab = lab
        self.lock0 = lab.cs.state.lock       # the lock object must stay the same for the life of the state: replacing it splits the mutual exclusion
        mon = self
        for name in HOOKS:
            for cls in {type(lab.cs.state), S.SyncState}:
                if name in cls.__dict__ and (cls, name) not in self.saved:
                    orig = cls.__dict__[name]
                    self.saved[(cls, name)] = orig

                    def w(self_, *a, _o=orig, _n=name, **k):
                        if not getattr(self_, "_loading", False) and self_ is mon.lab.cs.state and mon.entry is not None:
                            mon.mutations += 1
                            if self_.lock is not mon.lock0:
                                v = (mon.entry, _n, "state.lock was replaced by another lock object")
                                if v not in mon.violations:
                                    mon.violations.append(v)
                            if not self_.lock._is_owned():
                                fr = sys._getframe(1)
                                site = None
                                while fr is not None:
                                    fn = fr.f_code.co_filename
                                    if "/cloudsync/" in fn and "/tests/" not in fn and "state.py" not in fn:
                                        site = "%s:%s" % (fn.rsplit("/", 1)[1], fr.f_code.co_name)
                                        break
                                    fr = fr.f_back
                                v = (mon.entry, _n, site)
                                if v not in mon.violations:
                                    mon.violations.append(v)
                        return _o(self_, *a, **k)
                    setattr(cls, name, w)

        # atomicity of one entry synchronisation: from the moment the sync manager starts working on an entry until it is done with it,
        # the state lock is held at every provider call (a lock handed over in the middle lets an event application slip in between)
        self.in_sync = 0
        M = _lab.M
        orig_sync = M.SyncManager.__dict__["_sync_one_entry"]
        self.saved[(M.SyncManager, "_sync_one_entry")] = orig_sync

        def sync_one(self_, *a, **k):
            mon.in_sync += 1
            try:
                return orig_sync(self_, *a, **k)
            finally:
                mon.in_sync -= 1
        M.SyncManager._sync_one_entry = sync_one
        self.prov_saved = []
        for p_ in lab.p:
            for name in _lab.READERS + _lab.MUTATORS:
                o = getattr(p_, name)
                self.prov_saved.append((p_, name, o))

                def pw(*a, _o=o, _n=name, **k):
                    if mon.in_sync and not lab.user_mode and mon.entry is not None and not lab.cs.state.lock._is_owned():
                        v = (mon.entry, "provider." + _n, "state lock not held at a provider call inside an entry synchronisation")
                        if v not in mon.violations:
                            mon.violations.append(v)
                    return _o(*a, **k)
                setattr(p_, name, pw)

    def detach(self):
        for p_, name, o in getattr(self, "prov_saved", []):
            setattr(p_, name, o)
        self.prov_saved = []
        if self.lab.cs is not None and self.lab.cs.state.lock is not self.lock0:
            v = (self.entry or "?", "lock", "state.lock was replaced by another lock object")
            if v not in self.violations:
                self.violations.append(v)
        for (cls, name), orig in self.saved.items():
            setattr(cls, name, orig)
        self.saved = {}

    def result(self, hist, params):
        v = self.violations[0]
        return {"ok": False, "info": {"why": "shared sync state mutated without holding the state lock", "entry": v[0], "hook": v[1], "site": v[2], "all": self.violations[:6],
                                      "hist": hist},
                "sigdata": {"entry": v[0], "site": v[2], "symptom": "unlocked-mutation" if not str(v[1]).startswith("provider.") else "lock-released-mid-entry"}}


def _engine_factory(params, env=None):
    def fn():
        e = env or SymEnv()
        _lab.reset()
        lab = Lab(params["flavour"])
        mon = LockMonitor()
        if base_tree(lab, 2) is None:
            return {"ok": False, "info": {"why": "base tree did not become quiet"}, "sigdata": {"symptom": "base-not-quiet"}}
        mon.attach(lab)
        h = History(lab, e)
        # error paths are paths too: one engine-issued provider write fails with a temporary error at a solver-chosen index (0 = none)
        fail_at = e.choose("fail_write", params.get("nfail", 4))
        nwrites = [0]
        import cloudsync.exceptions as ex
        for sd, p in enumerate(lab.p):
            for name in ("create", "upload", "rename", "delete", "mkdir"):
                orig = getattr(p, name)

                def w(*a, _o=orig, **k):
                    if not lab.user_mode:
                        nwrites[0] += 1
                        if nwrites[0] == fail_at:
                            raise ex.CloudTemporaryError("injected")
                    return _o(*a, **k)
                setattr(p, name, w)
        try:
            first = params.get("first")
            for k in range(params["nops"]):
                side, op = first if (k == 0 and first) else (e.choose("side", 2), OPS[e.choose("op", len(OPS))])
                h.user(side, op, b"v%d" % k)
                for j in range(params["slots"]):
                    s = e.choose("slot", 4)
                    h.hist.append("s%d" % s)
                    if s < 3:
                        mon.entry = ("EventManager.do", "EventManager.do", "SyncManager.do")[s]
                        lab.step(s)
                        mon.entry = None
                a = API[e.choose("api", len(API))]
                h.hist.append("api:" + a)
                mon.entry = "CloudSync." + a
                if a == "forget":
                    lab.cs.forget()
                elif a == "walk":
                    lab.cs.walk()
                elif a == "busy":
                    try:
                        lab.cs.busy
                    except ex.CloudException:
                        pass
                elif a == "change_count":
                    lab.cs.change_count
                mon.entry = None
            for i in range(40):
                for o in (0, 1, 2):
                    mon.entry = ("EventManager.do", "EventManager.do", "SyncManager.do")[o]
                    lab.step(o)
                    mon.entry = None
                if not lab.busy():
                    break
        finally:
            mon.detach()
            lab.stop_engine()
        if mon.violations:
            return mon.result(h.hist, params)
        return {"ok": True, "key": repr(h.hist), "nontrivial": mon.mutations > 0}
    return fn


def _smart_factory(params, env=None):
    """the on-demand API entry points an application thread calls"""
    def fn():
        e = env or SymEnv()
        _lab.reset()
        from cloudsync.smartsync import SmartCloudSync
        from cloudsync.exceptions import CloudException
        lab = Lab(params["flavour"], cs_class=SmartCloudSync)
        l, r = lab.p
        lab.user(lambda: (r.create("/R/a", io.BytesIO(b"A0")), r.mkdir("/R/d"), r.create("/R/d/b", io.BytesIO(b"B0")), l.create("/L/c", io.BytesIO(b"C0"))))
        if lab.drain() is None:
            return {"ok": False, "info": {"why": "base tree did not become quiet"}, "sigdata": {"symptom": "base-not-quiet"}}
        mon = LockMonitor()
        mon.attach(lab)
        hist = []
        CALLS = ["smart_sync_path", "smart_sync_oid", "smart_unsync_path", "smart_unsync_oid", "smart_delete_path", "smart_listdir_path", "smart_info_path", "smart_info_oid",
                 "local-edit", "round"]
        try:
            for k in range(params["ncalls"]):
                c = CALLS[e.choose("call", len(CALLS))]
                hist.append(c)
                mon.entry = "SmartCloudSync." + c
                try:
                    if c == "smart_sync_path":
                        lab.cs.smart_sync_path("/R/a", 1)
                    elif c == "smart_sync_oid":
                        i = lab.user(lambda: r.info_path("/R/d/b"))
                        if i:
                            lab.cs.smart_sync_oid(i.oid)
                    elif c == "smart_unsync_path":
                        lab.cs.smart_unsync_path("/L/a", 0)
                    elif c == "smart_unsync_oid":
                        i = lab.user(lambda: r.info_path("/R/d/b"))
                        if i:
                            lab.cs.smart_unsync_oid(i.oid)
                    elif c == "smart_delete_path":
                        i = lab.user(lambda: l.info_path("/L/c"))
                        if i:
                            lab.cs.smart_delete_path(i.oid, "/L/c")
                    elif c == "smart_listdir_path":
                        list(lab.cs.smart_listdir_path("/L"))
                    elif c == "smart_info_path":
                        lab.cs.smart_info_path("/L/a")
                    elif c == "smart_info_oid":
                        i = lab.user(lambda: r.info_path("/R/a"))
                        if i:
                            lab.cs.smart_info_oid(i.oid)
                    elif c == "local-edit":
                        mon.entry = None
                        i = lab.user(lambda: l.info_path("/L/a"))
                        if i:
                            lab.user(lambda: l.upload(i.oid, io.BytesIO(b"L%d" % k)))
                    elif c == "round":
                        for o in (0, 1, 2):
                            mon.entry = ("EventManager.do", "EventManager.do", "SyncManager.do")[o]
                            lab.step(o)
                except (CloudException, AttributeError, TypeError) as ex:
                    hist[-1] = hist[-1] + ":" + type(ex).__name__
                mon.entry = None
        finally:
            mon.detach()
            lab.stop_engine()
        if mon.violations:
            return mon.result(hist, params)
        return {"ok": True, "key": repr(hist), "nontrivial": mon.mutations > 0}
    return fn


def _mut(params, env=None):
    """sensitivity twin: event application loses its 'with self.state.lock'"""
    inner = _engine_factory(params, env)

    def fn():
        EV = _lab.EV
        orig = EV.EventManager._process_event

        def pe(self, event, from_walk=False):
            real = self.state.lock

            class NoLock:
                def __enter__(s):
                    return s

                def __exit__(s, *a):
                    return False

                def _is_owned(s):
                    return real._is_owned()
            object.__setattr__(self.state, "lock", NoLock())
            try:
                return orig(self, event, from_walk)
            finally:
                object.__setattr__(self.state, "lock", real)
        EV.EventManager._process_event = pe
        try:
            return inner()
        finally:
            EV.EventManager._process_event = orig
    return fn


HARNESSES = {"engine": _engine_factory, "smart": _smart_factory, "engine~event-no-lock": _mut}


def replay(harness, params, model):
    return std_replay(HARNESSES[harness], harness, params, model)


def signature(harness, params, rec):
    info = rec.get("info") or {}
    return {"entry": info.get("entry"), "site": info.get("site"), "symptom": "unlocked-mutation" if info.get("entry") else (info.get("why") or rec.get("exc"))}


def jobs(tier):
    q = tier == "quick"
    out = []
    for f in (("oid", "path") if q else ("oid", "path", "mixed")):
        for side in (0, 1):
            for op in OPS:
                out.append({"harness": "engine", "params": {"flavour": f, "nops": 1, "slots": 2, "first": [side, op]}, "label": "engine/%s/1op/2slots/first=%d:%s" % (f, side, op)})
                if not q and f == "oid" and side == 0:
                    # two operations, an application call after each, the injected write failure at index 0 (none) or 1
                    out.append({"harness": "engine", "params": {"flavour": f, "nops": 2, "slots": 1, "nfail": 2, "first": [side, op]}, "label": "engine/%s/2ops/1slot/first=%d:%s" % (f, side, op)})
        out.append({"harness": "smart", "params": {"flavour": f, "ncalls": 3}, "label": "smart-api/%s/3-calls" % f})
        if not q:
            out.append({"harness": "smart", "params": {"flavour": f, "ncalls": 4}, "label": "smart-api/%s/4-calls" % f})
    out.append({"harness": "engine~event-no-lock", "params": {"flavour": "oid", "nops": 1, "slots": 1, "first": [0, "create_b"]}, "label": "engine~event-no-lock", "role": "sens"})
    return out


def meta(tier):
    return {
        "explanation": "M2, lockset argument: wrappers around the state's mutation hooks (updated, update, mark_changed, storage_commit, forget, forget_oid, finished, split) record any call made "
                       "while the calling thread does not own state.lock; the entry points a production or application thread runs - EventManager.do, SyncManager.do, CloudSync.forget/walk/"
                       "busy/change_count, and the SmartCloudSync request/un-request/delete/listing/info calls - are explored over solver-enumerated histories, schedules and call sequences. "
                       "Whether the lock is held at a mutation depends only on the path of the thread performing it, so exhausting each entry point's paths within the bound decides 'every "
                       "mutation happens under the lock' within the bound.",
        "bounds": {"engine": "1 operation x 2 slots (thorough: + 2 operations x 1 slot on object ids with the injected failure at write 0/1), one application call after each operation", "smart api": "3 (4) calls from 10 kinds"},
        "symbolic": ["operations, schedule slots, application calls"],
        "outside": ["'any threaded execution reaches C01-C04': real OS threads cannot run under a single-thread symbolic executor - NOT claimed", "reads of the shared state without the lock",
                    "locks other than state.lock (provider locks, storage mutex)"],
        "stubs": ["engine lab determinisation", "wrappers on SyncState mutation hooks"],
        "assumptions": ["threading.RLock._is_owned reports ownership correctly"],
    }
