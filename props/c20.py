"""C20 on-demand sync: remote files stay remote until requested; un-request keeps the remote copy; merged listing"""
import io
from props import _lab
from props._lab import Lab, SymEnv, show
from props._hist import History, Fail, result_fail, std_replay

PROP = "C20"
LEVEL = "other"
SELFTEST_PARTS = ("num",)
WALL_BUDGET = {"quick": 3600, "thorough": 14400}
ACTIONS = ["remote-write", "remote-delete", "local-create", "local-edit", "request-path", "request-id", "unrequest", "listdir", "remote-mkdir", "remote-create-b",
           "unrequest-id", "remote-create-nested", "request-nested", "unrequest-b", "remote-write-b", "unrequest-upload-fault"]
QUICK_ACTIONS = 10        # the generic quick families draw from the first ten; the last three are exercised by focused families


class RoundSlots:
    """coarser schedule for the quick tier: after each action either nothing or one fair round of engine steps"""

    def __init__(self, h):
        self.h = h

    def __call__(self, n):
        for j in range(n):
            s = self.h.e.choose("round", 2)
            self.h.hist.append("r%d" % s)
            if s:
                for o in (0, 1, 2):
                    self.h.step(o)


def _factory(params, env=None, monitor=None):
    def fn():
        e = env or SymEnv()
        _lab.reset()
        from cloudsync.smartsync import SmartCloudSync
        from cloudsync.exceptions import CloudException
        lab = Lab(params["flavour"], cs_class=SmartCloudSync)
        l, r = lab.p
        auto = params.get("auto")
        if auto:
            lab.cs.register_auto_sync_callback(lambda path: path == "/R/b")
        lab.user(lambda: (r.create("/R/a", io.BytesIO(b"A0")), r.mkdir("/R/d")))
        if monitor:
            monitor.attach(lab)
        if lab.drain() is None:
            return {"ok": False, "info": {"why": "base tree did not become quiet"}, "sigdata": {"symptom": "base-not-quiet"}}
        h = History(lab, e)
        requested = False          # is /a currently requested?
        ever = False
        req_n = ever_n = False     # the same for the nested file /m/f
        unreq_b = [False]          # /b (auto-sync match) was explicitly un-requested by the application (with nothing in flight)
        unreq_b_any = [False]
        hist = h.hist
        nloc = [0]

        def local_a():
            return lab.user(lambda: l.info_path("/L/a"))

        def check_never_downloaded(where):
            if not ever and local_a():
                raise Fail("a file that exists only remotely was downloaded although nobody requested it", where=where, symptom="downloaded-unrequested")
            if not ever_n and lab.user(lambda: l.info_path("/L/m/f")):
                raise Fail("a nested file that exists only remotely was downloaded although nobody requested it", where=where, symptom="downloaded-unrequested")
            if unreq_b[0] and lab.user(lambda: l.info_path("/L/b")):
                raise Fail("a file the application un-requested was downloaded again without a new request", where=where, symptom="downloaded-unrequested")
            if not auto and lab.user(lambda: l.info_path("/L/b")):
                raise Fail("a remote-only file was downloaded without request or predicate", where=where, symptom="downloaded-unrequested")

        class NoDownload:
            def after(self, hh, which):
                try:
                    check_never_downloaded("engine step")
                except Fail as f:
                    return f.why
        h.monitors.append(NoDownload())
        remote_seen = [True]       # has the remote intake run since the last remote mutation? (the listing can only know what the engine has been told)

        class RemoteSeen:
            def after(self, hh, which):
                if which == 1:
                    remote_seen[0] = True
        h.monitors.append(RemoteSeen())
        try:
            first = params.get("first")
            prefix = params.get("prefix") or ([first] if first else [])
            for k in range(params["nact"]):
                a = prefix[k] if k < len(prefix) else ACTIONS[e.choose("action", params.get("pool") or len(ACTIONS))]
                tag = b"%d" % k
                n0 = len(lab.calls)
                if a.startswith("remote-"):
                    remote_seen[0] = False
                try:
                    if a == "remote-write":
                        i = lab.user(lambda: r.info_path("/R/a"))
                        if i:
                            lab.user(lambda: r.upload(i.oid, io.BytesIO(b"A" + tag)))
                            hist.append("remote-edit")
                        else:
                            lab.user(lambda: r.create("/R/a", io.BytesIO(b"A" + tag)))
                            hist.append("remote-create")
                            # a re-created remote file is a new object: an earlier request was for the old one
                    elif a == "remote-delete":
                        i = lab.user(lambda: r.info_path("/R/a"))
                        if i:
                            lab.user(lambda: r.delete(i.oid))
                            hist.append("remote-delete")
                            requested = False      # the requested object is gone; a later file of that name is a new object
                        else:
                            hist.append("noop")
                    elif a == "remote-mkdir":
                        if not lab.user(lambda: r.info_path("/R/m")):
                            lab.user(lambda: r.mkdir("/R/m"))
                            hist.append("remote-mkdir")
                        else:
                            hist.append("noop")
                    elif a == "remote-create-b":
                        if not lab.user(lambda: r.info_path("/R/b")):
                            lab.user(lambda: r.create("/R/b", io.BytesIO(b"B" + tag)))
                            hist.append("remote-create-b")
                        else:
                            hist.append("noop")
                    elif a == "local-create":
                        nloc[0] += 1
                        lab.user(lambda: l.create("/L/c%d" % nloc[0], io.BytesIO(b"C" + tag)))
                        hist.append("local-create")
                    elif a == "local-edit":
                        i = local_a()
                        if i:
                            lab.user(lambda: l.upload(i.oid, io.BytesIO(b"L" + tag)))
                            hist.append("local-edit")
                        else:
                            hist.append("noop")
                    elif a == "request-path":
                        lab.cs.smart_sync_path("/R/a", 1)
                        requested = ever = True
                        hist.append("request-path")
                    elif a == "request-id":
                        i = lab.user(lambda: r.info_path("/R/a"))
                        if i:
                            lab.cs.smart_sync_oid(i.oid)
                            requested = ever = True
                            hist.append("request-id")
                        else:
                            hist.append("noop")
                    elif a == "remote-write-b":
                        i = lab.user(lambda: r.info_path("/R/b"))
                        if i:
                            lab.user(lambda: r.upload(i.oid, io.BytesIO(b"B" + tag)))
                            hist.append("remote-write-b")
                        else:
                            hist.append("noop")
                    elif a == "unrequest-b":
                        if lab.user(lambda: l.info_path("/L/b")):
                            calm = lab.cs.state.changeset_len == 0 and all(p_._cursor == p_._latest_cursor for p_ in lab.p)
                            res = lab.cs.smart_unsync_path("/L/b", 0)
                            hist.append("unrequest-b")
                            if res:
                                unreq_b_any[0] = True
                                # judged only when nothing was in flight at the time of the call (a remote edit that is still pending when the
                                # application un-requests the file is an ambiguous race between the predicate and the un-request)
                                if calm:
                                    unreq_b[0] = True
                                if lab.user(lambda: l.info_path("/L/b")):
                                    raise Fail("un-request left the local copy in place", symptom="unrequest-kept-local")
                        else:
                            hist.append("noop")
                    elif a == "remote-create-nested":
                        if not lab.user(lambda: r.info_path("/R/m")):
                            lab.user(lambda: r.mkdir("/R/m"))
                        if not lab.user(lambda: r.info_path("/R/m/f")):
                            lab.user(lambda: r.create("/R/m/f", io.BytesIO(b"F" + tag)))
                            hist.append("remote-create-nested")
                        else:
                            hist.append("noop")
                    elif a == "request-nested":
                        lab.cs.smart_sync_path("/R/m/f", 1)
                        req_n = ever_n = True
                        hist.append("request-nested")
                    elif a in ("unrequest", "unrequest-id", "unrequest-upload-fault"):
                        before_local = None
                        i = local_a()
                        if i:
                            b = io.BytesIO()
                            lab.user(lambda: l.download(i.oid, b))
                            before_local = b.getvalue()
                        rbefore = lab.user(lambda: r.info_path("/R/a"))
                        if a == "unrequest":
                            res = lab.cs.smart_unsync_path("/L/a", 0)
                        elif a == "unrequest-upload-fault":
                            # the upload of the pending local edit, which the un-request triggers, fails once with a temporary error
                            import cloudsync.exceptions as cex
                            armed = [True]
                            saved_ = {}
                            for nm in ("upload", "create"):
                                saved_[nm] = getattr(r, nm)

                                def faulty(*a_, _o=saved_[nm], **k_):
                                    if armed[0] and not lab.user_mode:
                                        armed[0] = False
                                        raise cex.CloudTemporaryError("injected: upload failed")
                                    return _o(*a_, **k_)
                                setattr(r, nm, faulty)
                            try:
                                res = lab.cs.smart_unsync_path("/L/a", 0)
                            finally:
                                for nm, o_ in saved_.items():
                                    setattr(r, nm, o_)
                        elif rbefore:
                            # the by-id call returns the (cleared) local path, i.e. None, either way: read the request set to know whether the call applied
                            ent_ = lab.cs.state.lookup_oid(1, rbefore.oid)
                            was_req = ent_ is not None and ent_ in lab.cs.state.requestset
                            lab.cs.smart_unsync_oid(rbefore.oid)
                            res = was_req
                        else:
                            res = None
                        hist.append(a)
                        new = lab.calls[n0:]
                        if any(c[0] == 1 and c[1] == "delete" for c in new):
                            raise Fail("un-requesting a file deleted the remote copy", symptom="remote-delete-on-unrequest")
                        if res:
                            requested = False
                            if local_a():
                                raise Fail("un-request left the local copy in place", symptom="unrequest-kept-local")
                            if rbefore and before_local is not None:
                                rb = io.BytesIO()
                                ri = lab.user(lambda: r.info_path("/R/a"))
                                if ri:
                                    lab.user(lambda: r.download(ri.oid, rb))
                                    if before_local.startswith(b"L") and rb.getvalue() != before_local:
                                        raise Fail("un-request removed the local copy before its newer local edits were uploaded", symptom="unrequest-lost-edit",
                                                   local_was=before_local.decode(), remote_is=rb.getvalue().decode())
                    elif a == "listdir":
                        ls = {i.path: i.is_synced for i in lab.cs.smart_listdir_path("/L")}
                        hist.append("listdir")
                        tl = lab.tree(0)
                        for p in tl:
                            if "/" not in p[1:] and tl[p] is not None and ls.get("/L" + p) is not True:
                                raise Fail("merged listing does not report a local file as synced", path=p, listing=repr(ls), symptom="listdir-local")
                        tr = lab.tree(1)
                        for lp in ls:
                            rel = lp[len("/L"):]
                            if remote_seen[0] and rel not in tl and rel not in tr:
                                raise Fail("merged listing reports a file that exists on neither side", path=rel, listing=repr(ls), symptom="listdir-ghost")
                        st = lab.cs.state
                        for p in tr:
                            if "/" not in p[1:] and tr[p] is not None and p not in tl:
                                known = st.lookup_path(1, "/R" + p)
                                if known and ls.get("/L" + p) is not False:
                                    raise Fail("merged listing does not report a not-yet-downloaded remote file as not synced", path=p, listing=repr(ls), symptom="listdir-remote")
                except CloudException as ex:
                    hist.append("exc:" + type(ex).__name__)
                check_never_downloaded("api call")
                pg = params.get("prefix_gaps") or []
                if k < len(pg) and pg[k] == "Q":
                    hist.append("Q")
                    h.drain()
                    continue
                if params.get("slotmode") == "round":
                    RoundSlots(h)(params["slots"])
                else:
                    h.slots(params["slots"])
            h.drain()
            tl, tr = lab.tree(0), lab.tree(1)
            info = dict(local=show(tl), remote=show(tr), requested=requested)
            for p, v in tl.items():
                if p.startswith("/c") and tr.get(p) != v:
                    raise Fail("a local creation was not uploaded", path=p, symptom="local-not-uploaded", **info)
            for d in ("/d", "/m"):
                if (d in tr) != (d in tl):
                    raise Fail("folders are not mirrored", folder=d, symptom="folder-not-mirrored", **info)
            if requested and "/a" in tr and tl.get("/a") != tr.get("/a"):
                raise Fail("a requested file is not in sync at quiescence", symptom="requested-not-synced", **info)
            if req_n and "/m/f" in tr and tl.get("/m/f") != tr.get("/m/f"):
                raise Fail("a requested nested file is not in sync at quiescence", symptom="requested-not-synced", **info)
            if auto and not unreq_b_any[0] and "/b" in tr and tl.get("/b") != tr.get("/b"):
                raise Fail("a file matching the auto-sync predicate was not downloaded", symptom="predicate-not-synced", **info)
            check_never_downloaded("quiescence")
        except Fail as f:
            r2 = result_fail(h, f, params)
            r2["sigdata"] = {"flavour": params["flavour"], "symptom": f.info.get("symptom") or f.why, "acts": [x for x in hist if isinstance(x, str) and not x.startswith("s") or x in ("listdir",)], "ops": None}
            return r2
        finally:
            if monitor:
                monitor.detach()
            lab.stop_engine()
        if monitor and monitor.violations:
            return monitor.result(hist, params)
        return {"ok": True, "key": repr(hist), "nontrivial": True}
    return fn


HARNESSES = {"smart": _factory}


def replay(harness, params, model):
    return std_replay(_factory, harness, params, model)


def _acts(hist):
    return [x for x in (hist or []) if isinstance(x, str) and not (len(x) == 2 and x[0] in "sr" and x[1].isdigit())]


def signature(harness, params, rec):
    info = rec.get("info") or {}
    sym = info.get("symptom") or info.get("why") or rec.get("exc") or ""
    if isinstance(sym, str) and sym.startswith("engine not quiet"):
        sym = "no-quiescence"
    return {"flavour": params["flavour"], "symptom": sym, "acts": _acts(info.get("hist")), "ops": None}


def jobs(tier):
    q = tier == "quick"
    out = []
    for f in (("oid",) if q else ("oid", "path")):
        coarse = q or f == "path"          # coarse schedule: after each action nothing or one fair round
        sm = {"slotmode": "round"} if coarse else {}
        for auto in (False, True):
            for a in ACTIONS:
                p = dict(sm if not auto else {"slotmode": "round"}, flavour=f, auto=auto, nact=3, slots=1, first=a)
                if q:
                    p["pool"] = QUICK_ACTIONS
                    if ACTIONS.index(a) >= QUICK_ACTIONS:
                        continue
                out.append({"harness": "smart", "params": p, "label": "%s/%s/3-actions/first=%s" % (f, "auto-b" if auto else "no-predicate", a)})
        # request / un-request / ... : re-request after un-request needs four actions
        n = 4
        for pre in (["request-path", "unrequest"], ["request-id", "unrequest"]):
            out.append({"harness": "smart", "params": {"flavour": f, "auto": False, "nact": n, "slots": 1, "slotmode": "round", "prefix": pre},
                        "label": "%s/no-predicate/%d-actions/prefix=%s" % (f, n, "+".join(pre))})
        # a requested file is edited locally and un-requested while the upload of that edit fails once
        out.append({"harness": "smart", "params": {"flavour": f, "auto": False, "nact": 4, "slots": 1, "slotmode": "round", "prefix": ["request-path", "local-edit", "unrequest-upload-fault"], "prefix_gaps": ["Q"]},
                    "label": "%s/no-predicate/4-actions/prefix=request+edit+unrequest-with-upload-fault" % f})
        # a predicate-matched file is downloaded, the application un-requests it, then it is edited remotely
        out.append({"harness": "smart", "params": {"flavour": f, "auto": True, "nact": 4, "slots": 1, "slotmode": "round", "prefix": ["remote-create-b", "unrequest-b"], "prefix_gaps": ["Q"]},
                    "label": "%s/auto-b/4-actions/prefix=remote-create-b+unrequest-b" % f})
        # nested remote file: the request has to bring the (possibly unsynced) parent folder first; un-request by id
        n = 3 if (q or f == "path") else 4
        for pre in (["remote-create-nested"], ["request-path", "unrequest-id"]):
            out.append({"harness": "smart", "params": {"flavour": f, "auto": False, "nact": n, "slots": 1, "slotmode": "round", "prefix": pre},
                        "label": "%s/no-predicate/%d-actions/prefix=%s" % (f, n, "+".join(pre))})
    return out


def meta(tier):
    return {
        "explanation": "M2 on the real SmartCloudSync/SmartSyncManager/SmartSyncState/SmartEventManager: sequences of 3 (thorough 4) actions from {remote create/edit, remote delete, "
                       "remote mkdir, remote create of a second file, local create, local edit, request by path, request by id, un-request by path or id, merged listing, remote create of a nested file in a new folder, request of the nested file} with a solver-chosen slot after each, "
                       "with and without a registered auto-sync predicate. Oracles: an unrequested remote-only file is never present locally (checked after every engine step and API call); "
                       "un-request issues no remote delete, removes the local copy and first uploads newer local edits; listing reports local files as synced and known remote-only files as "
                       "not synced; at quiescence folders are mirrored, local creations uploaded, a requested or predicate-matched file equal on both sides.",
        "bounds": {"actions": ACTIONS, "length": "3", "slots": "quick: after each action nothing or one fair round of three steps; thorough: one of {local intake, remote intake, sync step, nothing}", "predicates": "none; matches /R/b", "flavours": "oid (thorough + path)"},
        "symbolic": ["action kinds", "schedule slots"],
        "outside": ["several requested files at once", "smart_rename / smart_delete_path", "longer sequences"],
        "stubs": ["engine lab determinisation"],
        "assumptions": [],
    }
