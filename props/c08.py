"""C08 persisted state equals memory; codec round trip.
(a) codec: SyncEntry.serialize -> Storage -> SyncState load over solver-chosen field shapes, incl. legacy rows
(b) dirty discipline: one assignment to any public attribute => after commit the stored row equals the entry
(c) whole engine: after EVERY engine step the decoded storage equals the live entries; a reloaded state behaves the same"""
import msgpack
from props import _lab
from props._lab import S, Lab, SymEnv, DictStorage, do_op, base_tree

PROP = "C08"
LEVEL = "other"
SELFTEST_PARTS = ("num",)
WALL_BUDGET = {"quick": 3600, "thorough": 14400}
FIELDS = ["otype", "hash", "changed", "sync_hash", "path", "sync_path", "oid", "exists", "size", "mtime", "saved_exists"]

HASHES = [None, b"\x00\xffbytes", "str-hé", 2 ** 40, (b"a", ("n", 1)), {"k": b"v", "n": 3}, b""]
PATHS = [None, "/a", "/é b/c.x", "/A"]
OIDS = ["o1", "ö/2", 17]
CHANGED = [None, 0, 1234.5]


def _ex():
    return list(S.Exists)


def _ig():
    from cloudsync.types import IgnoreReason
    return list(IgnoreReason)


def norm(v):
    """msgpack returns lists as tuples (use_list=False); compare modulo that"""
    if isinstance(v, (list, tuple)):
        return tuple(norm(x) for x in v)
    if isinstance(v, dict):
        return {k: norm(x) for k, x in v.items()}
    return v


def side_fields(s):
    return {f: getattr(s, "_" + f) for f in FIELDS}


def same(a, b):
    """exact, type-sensitive equality at every depth (a tuple hash must come back as a tuple, not a list)"""
    if type(a) is not type(b):
        return False
    if isinstance(a, (list, tuple)):
        return len(a) == len(b) and all(same(x, y) for x, y in zip(a, b))
    if isinstance(a, dict):
        return a.keys() == b.keys() and all(same(a[k], b[k]) for k in a)
    return a == b


def entry_fields(ent):
    return {"side0": side_fields(ent[0]), "side1": side_fields(ent[1]), "ignored": ent.ignored, "priority": None}


def diff(a, b):
    out = []
    for k in ("side0", "side1"):
        for f in FIELDS:
            x, y = a[k][f], b[k][f]
            if not same(x, y):
                if f == "changed" and not x and not y:
                    continue            # None / 0 / False all mean 'no pending change'
                out.append((k, f, repr(x), repr(y)))
    if a["ignored"] != b["ignored"]:
        out.append(("ignored", a["ignored"], b["ignored"]))
    return out


def h_codec(params, env=None):
    def fn():
        e = env or SymEnv()
        _lab.reset()
        from cloudsync.types import FILE, DIRECTORY
        provs = (_lab.mk_provider(False), _lab.mk_provider(False))
        st = S.SyncState(provs, DictStorage(), tag="t")
        GA = ("hash", "sync_hash", "exists", "then_corrupt", "ignored")
        grp = params["group"]

        def pick(name, n):
            # fields are varied in two groups (value shapes x existence/ignore; identity x paths x times); the others stay at index 0/1
            if (name in GA) == (grp == "A"):
                return e.choose(name, n)
            return 1 if name in ("path", "sync_path", "hash") else 0
        otype = (FILE, DIRECTORY)[pick("otype", 2)]
        ent = S.SyncEntry(st, otype)
        desc = []
        varied = e.choose("varied_side", 2)
        for side in (0, 1):
            s = ent[side]
            if side != varied:
                s.oid = "fixed-%d" % side
                s.path = "/fixed"
                s.hash = b"fixed"
                s.exists = S.EXISTS
                continue
            s.oid = OIDS[pick("oid", len(OIDS))]
            s.path = PATHS[pick("path", len(PATHS))]
            s.hash = HASHES[pick("hash", len(HASHES))]
            s.sync_hash = HASHES[pick("sync_hash", 3)]
            s.sync_path = PATHS[pick("sync_path", 2)]
            s.changed = CHANGED[pick("changed", len(CHANGED))]
            ex = _ex()
            s.exists = ex[pick("exists", len(ex))]
            if pick("then_corrupt", 2):
                s.exists = S.CORRUPT
            if pick("size", 2):
                s.size = 12345
                s.mtime = 1e9 + 0.5
            desc.append((side, repr(s.oid), s.path, type(s.hash).__name__, s.exists.value, repr(s._saved_exists)))
        ig = _ig()
        ent.ignored = ig[pick("ignored", len(ig))]
        want = entry_fields(ent)
        ser = ent.serialize()
        store = DictStorage({"t": {5: ser}})
        st2 = S.SyncState(provs, store, tag="t")
        if 5 not in store.data.get("t", {}):
            return {"ok": False, "info": {"why": "row dropped while loading", "desc": desc}}
        cands = st2.get_all(discarded=True)
        loaded = None
        for c in cands:
            loaded = c
        if loaded is None:
            # an entry without any id is not indexed: load it directly
            loaded = S.SyncEntry(st2, None, (5, ser))
        got = entry_fields(loaded)
        d = diff(want, got)
        if d:
            return {"ok": False, "info": {"why": "field changed across serialize/load", "fields": [x[:2] for x in d], "detail": d, "desc": desc}}
        # a loaded entry re-serialises to the same row (stable fixed point)
        if norm(msgpack.loads(loaded.serialize(), use_list=False, raw=False)) != norm(msgpack.loads(ser, use_list=False, raw=False)):
            return {"ok": False, "info": {"why": "re-serialised row differs", "desc": desc}}
        # pending flag and lookups of the reloaded state
        for side in (0, 1):
            o = ent[side].oid
            if o is not None:
                l2 = st2.lookup_oid(side, o)
                if l2 is None:
                    return {"ok": False, "info": {"why": "reloaded state cannot find the entry by id", "desc": desc}}
        pend = any(ent[s].changed for s in (0, 1))
        if pend != (len(st2._changeset_storage) > 0) and any(ent[s].oid is not None for s in (0, 1)):
            return {"ok": False, "info": {"why": "pending flag differs after reload", "desc": desc}}
        return {"ok": True, "key": repr(desc) + str(ent.ignored), "nontrivial": True}
    return fn


def h_legacy(params, env=None):
    """rows written by older releases: boolean/None existence, missing size/mtime/_saved_exists/ignored, legacy discarded/conflicted keys, 'trashed'"""
    def fn():
        e = env or SymEnv()
        _lab.reset()
        from cloudsync.types import IgnoreReason
        provs = (_lab.mk_provider(False), _lab.mk_provider(False))

        def side(n):
            d = {"otype": "file", "side": n, "hash": b"h", "changed": None, "sync_hash": b"h", "path": "/a", "sync_path": "/a", "oid": "o%d" % n,
                 "temp_file": None}
            lex = [True, False, None, "exists", "trashed"][e.choose("legacy_exists", 5)]
            d["exists"] = lex
            if e.choose("has_size", 2):
                d["size"] = 5
                d["mtime"] = 7.5
            if e.choose("has_saved", 2):
                d["_saved_exists"] = [None, "exists", "bogus"][e.choose("saved", 3)]
            return d, lex
        s0, x0 = side(0)
        s1, x1 = side(1)
        row = {"side0": s0, "side1": s1}
        mark = e.choose("marker", 6)
        want_ig = IgnoreReason.NONE
        if mark == 1:
            row["ignored"] = "trashed"
            want_ig = IgnoreReason.DISCARDED
        elif mark == 2:
            row["discarded"] = True
            want_ig = IgnoreReason.DISCARDED
        elif mark == 3:
            row["conflicted"] = True
            want_ig = IgnoreReason.CONFLICT
        elif mark == 4:
            row["ignored"] = "conflict"
            want_ig = IgnoreReason.CONFLICT
        elif mark == 5:
            row["ignored"] = "irrelevant"
            want_ig = IgnoreReason.IRRELEVANT
        ser = msgpack.dumps(row, use_bin_type=True)
        store = DictStorage({"t": {9: ser}})
        st = S.SyncState(provs, store, tag="t")
        if 9 not in store.data["t"]:
            return {"ok": False, "info": {"why": "legacy row dropped while loading", "row": repr(row)}}
        ent = st.lookup_oid(0, "o0")
        if ent is None or st.lookup_oid(1, "o1") is not ent:
            return {"ok": False, "info": {"why": "legacy row not indexed by its ids", "row": repr(row)}}
        mp = {True: S.EXISTS, False: S.TRASHED, None: S.UNKNOWN, "exists": S.EXISTS, "trashed": S.TRASHED}
        for n, lex in ((0, x0), (1, x1)):
            if ent[n].exists != mp[lex]:
                return {"ok": False, "info": {"why": "legacy existence value mapped wrongly", "legacy": repr(lex), "got": ent[n].exists.value}}
            if ent[n].path != "/a" or ent[n].hash != b"h" or ent[n].sync_hash != b"h":
                return {"ok": False, "info": {"why": "legacy row lost a field"}}
        if ent.ignored != want_ig:
            return {"ok": False, "info": {"why": "legacy ignore marker mapped wrongly", "marker": mark, "got": ent.ignored.value}}
        return {"ok": True, "key": repr(row), "nontrivial": True}
    return fn


ASSIGN = ["path", "oid", "hash", "sync_hash", "sync_path", "changed", "exists", "size", "mtime", "otype", "ignored", "priority", "corrupt", "uncorrupt",
          "clear", "setitem", "split", "split_discard"]


def decoded_equals(store, st, tag="t"):
    """None or why the decoded rows differ from the live entries"""
    rows = store.read_all(tag)
    live = [en for en in st.get_all(discarded=True) if not en.is_trash]
    by_id = {}
    for en in live:
        if en.storage_id is None:
            return "live entry has no row"
        if en.storage_id in by_id:
            return "two entries share a row"
        by_id[en.storage_id] = en
    for eid in rows:
        if eid not in by_id:
            return "stale row %r (no live entry)" % (eid,)
    for eid, en in by_id.items():
        if eid not in rows:
            return "missing row for a live entry"
        dec = msgpack.loads(rows[eid], use_list=False, raw=False)
        cur = msgpack.loads(en.serialize(), use_list=False, raw=False)
        if norm(dec) != norm(cur):
            bad = [k for k in ("side0", "side1") for f in dec[k] if norm(dec[k][f]) != norm(cur[k].get(f))]
            return "row differs from the entry in %s" % sorted(set(bad) or ["ignored/priority"])
    return None


def h_dirty(params, env=None):
    def fn():
        e = env or SymEnv()
        _lab.reset()
        from cloudsync.types import FILE, DIRECTORY, IgnoreReason
        provs = (_lab.mk_provider(False), _lab.mk_provider(False))
        store = DictStorage()
        st = S.SyncState(provs, store, tag="t")
        st.update(0, FILE, "o1", path="/a", hash=b"h1", exists=True)
        st.update(1, FILE, "p1", path="/x", hash=b"k1", exists=True)
        st.update(0, DIRECTORY, "o2", path="/d", exists=True)
        st.storage_commit()
        why = decoded_equals(store, st)
        if why:
            return {"ok": False, "info": {"why": "after setup: " + why}}
        ents = sorted(st.get_all(discarded=True), key=lambda x: x._hseq)
        done = []
        for k in range(params["K"]):
            en = ents[e.choose("ent", len(ents))]
            side = e.choose("side", 2)
            a = ASSIGN[e.choose("assign", len(ASSIGN))]
            done.append((en._hseq, side, a))
            s = en[side]
            try:
                if a == "path":
                    if s.oid:
                        s.path = ["/a", "/néw", None][e.choose("v", 3)]
                elif a == "oid":
                    s.oid = ["o1", "n9", None][e.choose("v", 3)]
                elif a == "hash":
                    s.hash = HASHES[e.choose("v", len(HASHES))]
                elif a == "sync_hash":
                    s.sync_hash = HASHES[e.choose("v", 3)]
                elif a == "sync_path":
                    s.sync_path = [None, "/a", "/q"][e.choose("v", 3)]
                elif a == "changed":
                    s.changed = [0, 77.0, None][e.choose("v", 3)]
                elif a == "exists":
                    ex = _ex()
                    s.exists = ex[e.choose("v", len(ex))]
                elif a == "size":
                    s.size = 99
                elif a == "mtime":
                    s.mtime = 123.25
                elif a == "otype":
                    s.otype = (FILE, DIRECTORY)[e.choose("v", 2)]
                elif a == "ignored":
                    ig = _ig()
                    en.ignored = ig[e.choose("v", len(ig))]
                elif a == "priority":
                    en.priority = [0, 1, -1][e.choose("v", 3)]
                elif a == "corrupt":
                    s.exists = S.CORRUPT
                elif a == "uncorrupt":
                    s.exists = S.CORRUPT
                    s.hash = b"new-hash"
                elif a == "clear":
                    s.clear()
                elif a in ("split", "split_discard"):
                    # what conflict resolution does: the local half becomes an entry of its own and - in the same step, before its
                    # first commit - may be discarded; a discarded entry stays indexed and revivable, so it needs its row (seed C08-F)
                    if en[0].oid:
                        _d, _ds, rep, _rs = st.split(en)
                        if a == "split_discard":
                            rep.ignore(IgnoreReason.DISCARDED)
                elif a == "setitem":
                    other = ents[e.choose("other", len(ents))]
                    if other is not en and other[side].oid:
                        en[side] = other[side]
            except AssertionError:
                done[-1] = done[-1] + ("rejected",)
            st.storage_commit()
            why = decoded_equals(store, st)
            if why:
                return {"ok": False, "info": {"why": why, "assignments": done}}
        return {"ok": True, "key": repr(done), "nontrivial": True}
    return fn


def h_commitfault(params, env=None):
    """a storage write fails once in the middle of a commit that covers several dirty entries (e.g. sqlite 'database is locked');
    the engine retries the commit: afterwards storage must again equal the live entries - no entry may have silently left the
    dirty set (seed C08-E)"""
    def fn():
        e = env or SymEnv()
        _lab.reset()
        from cloudsync.types import FILE, DIRECTORY
        provs = (_lab.mk_provider(False), _lab.mk_provider(False))
        store = DictStorage()
        st = S.SyncState(provs, store, tag="t")
        st.update(0, FILE, "o1", path="/a", hash=b"h1", exists=True)
        st.update(1, FILE, "p1", path="/x", hash=b"k1", exists=True)
        st.update(0, DIRECTORY, "o2", path="/d", exists=True)
        st.storage_commit()
        ents = sorted(st.get_all(discarded=True), key=lambda x: x._hseq)
        touched = []
        for i, en in enumerate(ents):
            kind = e.choose("touch", 4)          # 0 untouched, 1 new hash, 2 trashed, 3 new path
            touched.append(kind)
            side = 0 if en[0].oid else 1
            if kind == 1:
                en[side].hash = b"new-%d" % i
            elif kind == 2:
                en[side].exists = S.TRASHED
            elif kind == 3:
                en[side].path = "/moved%d" % i
        if e.choose("new_entry", 2):
            st.update(1, FILE, "p9", path="/fresh", hash=b"k9", exists=True)
            touched.append("new")
        fail_at = 1 + e.choose("fail_at", 4)
        n = [0]

        class Locked(Exception):
            pass

        def hook(kind, tag, eid):
            n[0] += 1
            if n[0] == fail_at:
                raise Locked("database is locked")
        store.hook = hook
        failed = False
        try:
            st.storage_commit()
        except Locked:
            failed = True
        store.hook = None
        st.storage_commit()                       # the retry (SyncManager commits again after every step)
        why = decoded_equals(store, st)
        if why:
            return {"ok": False, "info": {"why": "after a failed and a retried commit: " + why, "touched": touched, "fail_at": fail_at, "failed": failed}}
        return {"ok": True, "key": repr((touched, fail_at, failed)), "nontrivial": failed}
    return fn


OPS = ["create_a", "create_b", "write_a", "delete_a", "rename_a_b", "mkdir_d", "rmdir_d", "move_a_d", "rendir_d_e", "mkdir_d_s", "create_d_a"]


def reload_equal(lab):
    """a SyncState reloaded from storage answers lookups like the live one and has the same pending set"""
    live = lab.cs.state
    st2 = S.SyncState(lab.p, DictStorage({k: dict(v) for k, v in lab.storage.data.items()}), tag=lab.cs.storage_label())
    a = sorted((en.storage_id for en in live.get_all(discarded=True) if not en.is_trash), key=repr)
    b = sorted((en.storage_id for en in st2.get_all(discarded=True) if not en.is_trash), key=repr)
    if a != b:
        return "reloaded state has a different set of entries"
    for en in live.get_all(discarded=True):
        for side in (0, 1):
            o = en[side].oid
            if o is not None:
                r = st2.lookup_oid(side, o)
                if r is None or r.storage_id != en.storage_id:
                    return "reloaded lookup_oid differs"
                if en[side].path:
                    ids = sorted(x.storage_id for x in st2.lookup_path(side, en[side].path, stale=True))
                    ids0 = sorted(x.storage_id for x in live.lookup_path(side, en[side].path, stale=True))
                    if ids != ids0:
                        return "reloaded lookup_path differs"
    pa = sorted(en.storage_id for en in live._changeset_storage if not en.is_trash)
    pb = sorted(en.storage_id for en in st2._changeset_storage if not en.is_trash)
    if pa != pb:
        return "reloaded pending set differs"
    return None


def h_engine(params, env=None):
    def fn():
        e = env or SymEnv()
        _lab.reset()
        lab = Lab(params["flavour"])
        tag = lab.cs.storage_label()

        def chk(where):
            why = decoded_equals(lab.storage, lab.cs.state, tag) or reload_equal(lab)
            if why:
                return {"ok": False, "info": {"why": why, "hist": hist, "after": where}}
        hist = []
        if base_tree(lab, params["base"]) is None:
            return {"ok": False, "info": {"why": "base tree did not become quiet"}}
        r = chk("base")
        if r:
            return r
        first = params.get("first")
        steps = 0
        if params.get("intake_fault"):
            # one intake batch is cut short: the event stream of either side raises a temporary error after handing over k events (k = 0: never)
            kf = e.choose("fault_after_events", 4)
            armed = [kf > 0]
            import cloudsync.exceptions as cex
            for p_ in lab.p:
                def ev(_o=p_.events):
                    n = 0
                    for x in _o():
                        yield x
                        n += 1
                        if armed[0] and n == kf and not lab.user_mode:
                            armed[0] = False
                            raise cex.CloudTemporaryError("injected: event stream interrupted after %d events" % n)
                p_.events = ev
            hist.append("intake-fault-after=%d" % kf)
        for k in range(params["nops"]):
            if k == 0 and first is not None:
                side, op = first
            else:
                side = e.choose("side", 2)
                op = OPS[e.choose("op", len(OPS))]
            d = do_op(lab, side, op, b"v%d" % k)
            hist.append((side,) + tuple(d))
            for j in range(params["slotsper"][k] if params.get("slotsper") else params["slots"]):
                s = e.choose("slot", 4)
                hist.append("s%d" % s)
                if s < 3:
                    lab.step(s)
                    steps += 1
                    r = chk("slot")
                    if r:
                        return r
        for i in range(40):
            for o in (0, 1, 2):
                lab.step(o)
                steps += 1
                r = chk("drain")
                if r:
                    return r
            if not lab.busy():
                break
        lab.stop_engine()
        return {"ok": True, "key": repr(hist), "nontrivial": steps > 0}
    return fn


def _mut(params, env=None):
    """sensitivity twin: assignments to 'sync_path' no longer mark the entry dirty"""
    inner = h_dirty(params, env)

    def fn():
        orig = S.SyncState.updated

        def updated(self, ent, side, key, val):
            if key == "sync_path":
                return
            return orig(self, ent, side, key, val)
        S.SyncState.updated = updated
        try:
            return inner()
        finally:
            S.SyncState.updated = orig
    return fn


HARNESSES = {"codec": h_codec, "legacy": h_legacy, "dirty": h_dirty, "commitfault": h_commitfault, "engine": h_engine, "dirty~sync_path-not-dirty": _mut}


def _sig(harness, params, info, exc=None):
    import re
    info = info or {}
    why = info.get("why") or exc or ""
    out = {"harness": harness.split("~")[0], "why": re.sub(r"[0-9]+", "N", why)[:90]}
    if info.get("fields"):
        out["fields"] = sorted(set(f[1] for f in info["fields"]))
    if info.get("assignments"):
        out["last"] = info["assignments"][-1][2]
    if params.get("flavour"):
        out["flavour"] = params["flavour"]
    return out


def replay(harness, params, model):
    r = _lab.replay_driver(HARNESSES[harness], params, model)
    if r.get("reproduced"):
        r["sig"] = _sig(harness, params, r.get("info"), r.get("symptom"))
    return r


def signature(harness, params, rec):
    return _sig(harness, params, rec.get("info"), rec.get("exc"))


def jobs(tier):
    q = tier == "quick"
    out = [
        {"harness": "codec", "params": {"group": "A"}, "label": "codec/round-trip/hash-shapes x existence x ignore"},
        {"harness": "codec", "params": {"group": "B"}, "label": "codec/round-trip/ids x paths x times x type"},
        {"harness": "legacy", "params": {}, "label": "codec/legacy-rows"},
        {"harness": "dirty", "params": {"K": 1 if q else 2}, "label": "dirty/%d-assignments" % (1 if q else 2)},
        {"harness": "commitfault", "params": {}, "label": "commit/one-write-fails-then-retry"},
        {"harness": "dirty~sync_path-not-dirty", "params": {"K": 1}, "label": "dirty~sync_path-not-dirty", "role": "sens"},
    ]
    for f in (("oid", "path") if q else ("oid", "path", "mixed", "oid-ci")):
        for side in (0, 1):
            for op in OPS:
                out.append({"harness": "engine", "params": {"flavour": f, "base": 2, "nops": 2, "slots": 1 if q else 2, "first": [side, op]},
                            "label": "engine/%s/first=%d:%s" % (f, side, op)})
                if f in ("oid", "path"):
                    # two operations pending in one batch, the intake of which is cut short by a temporary error after k events
                    out.append({"harness": "engine", "params": {"flavour": f, "base": 2, "nops": 2, "slots": 1, "slotsper": [0, 1] if q else [1, 1], "intake_fault": True, "first": [side, op]},
                                "label": "engine/%s/interrupted-intake/first=%d:%s" % (f, side, op)})
    return out


def meta(tier):
    return {
        "explanation": "M2 with the real msgpack codec: (a) field shapes of both sides (7 hash shapes incl. bytes/str/int/nested tuple/dict/empty, unicode paths and ids, integer id, "
                       "None/0/float change times, all six existence values plus corrupt-over-each, all ignore reasons, optional size/mtime) are solver choices; the entry loaded from "
                       "(id, serialize()) must equal the original field by field and re-serialise identically; legacy rows (bool/None existence, missing keys, discarded/conflicted/'trashed') "
                       "must load as documented. (b) each public attribute x value class assigned on a storage-backed state, then commit: decoded row == entry. (c) after every engine step "
                       "of all 2-operation C01 histories: decoded read_all(tag) == live entries (no stale or missing row) and a reloaded SyncState gives the same lookups and pending set.",
        "bounds": {"codec": "one entry, every combination of the listed shapes (second side optional)", "dirty": "1 (thorough 2) assignments from %d kinds on 3 entries" % len(ASSIGN),
                   "engine": "2 operations, 1 (2) slots, base tree file + folder; flavours oid, path (thorough + mixed, case-insensitive)"},
        "symbolic": ["shape choice per field", "entry/side/attribute/value class per assignment", "user operations and schedule slots"],
        "outside": ["arbitrary byte/str contents beyond the representative values (the codec is msgpack: value-agnostic per type)", "temp_file (not sync-relevant)", "priority (not persisted by design: load resets it)"],
        "stubs": ["dict-backed Storage defined in the harness"],
        "assumptions": ["change times None/0/False are equivalent ('no pending change')"],
    }
