"""C17 scheduling laws: the real SyncState.update/mark_changed/change/punt under a symbolic clock,
symbolic ageing and priorities (M1), and the engine's first write vs. ageing on the virtual clock (M2)"""
from fractions import Fraction
from props import _lab
from props._lab import S, Lab, do_op, base_tree

PROP = "C17"
LEVEL = "other"
SELFTEST_PARTS = ("num",)
WALL_BUDGET = {"quick": 3600, "thorough": 14400}


class Env:
    def __init__(self, model=None):
        self.sym = model is None
        self.m = list(model or [])
        self.i = 0
        if self.sym:
            from symx import core
            self.core = core

    def _next(self, name):
        n, kind, v = self.m[self.i]
        self.i += 1
        assert n.split("#")[0] == name, (n, name)
        return v

    def real(self, name):
        if self.sym:
            return self.core.sym_real(name)
        return Fraction(self._next(name))

    def int(self, name, lo, hi):
        """stays symbolic (not concretised)"""
        if self.sym:
            return self.core.sym_int(name, lo, hi)
        return int(self._next(name))

    def choose(self, name, n):
        if self.sym:
            return int(self.core.sym_int(name, 0, n - 1))
        return int(self._next(name))

    def assume(self, c):
        if self.sym:
            self.core.CTX.assume(c.e if hasattr(c, "e") else c)
            if not self.core.CTX.feasible():
                raise self.core.PathAbort()
        elif not c:
            raise AssertionError("assumption false on replay")

    def holds(self, c, label=""):
        """validity of a boolean built from comparisons of proxies (or a plain bool)"""
        if self.sym and hasattr(c, "e"):
            return self.core.CTX.valid(c.e, label)
        return bool(c)


class SymClock:
    """every read is a fresh value >= (or >) the previous one"""

    def __init__(self, env, strict):
        self.env = env
        self.last = None
        self.strict = strict
        self.reads = []

    def time(self):
        t = self.env.real("t")
        if self.last is None:
            self.env.assume(t >= 1)
        elif self.strict:
            self.env.assume(t > self.last)
        else:
            self.env.assume(t >= self.last)
        self.last = t
        self.reads.append(t)
        return t

    monotonic = time

    def sleep(self, s):
        pass


def _b(x):
    """proxy/plain boolean -> z3 term or bool"""
    return x.e if hasattr(x, "e") else x


def z_and(*xs):
    import z3
    xs = [_b(x) for x in xs]
    if any(x is False for x in xs):
        return False
    xs = [x for x in xs if x is not True]
    return WrapB(z3.And(xs)) if xs else True


def z_or(*xs):
    import z3
    xs = [_b(x) for x in xs]
    if any(x is True for x in xs):
        return True
    xs = [x for x in xs if x is not False]
    return WrapB(z3.Or(xs)) if xs else False


def z_not(x):
    import z3
    x = _b(x)
    if isinstance(x, bool):
        return not x
    return WrapB(z3.Not(x))


class WrapB:
    def __init__(self, e):
        self.e = e

    def __bool__(self):
        raise TypeError("oracle terms are never branched on")


def h_pick(params, model=None):
    """change(age) returns an eligible entry, minimal under (priority, newest change); None iff none eligible"""
    N = params["N"]
    strict = params.get("strict", False)

    def fn():
        e = Env(model)
        _lab.reset()
        clk = SymClock(e, strict)
        saved = S.time
        S.time = clk
        try:
            provs = (_lab.mk_provider(False), _lab.mk_provider(False))
            prios = {}

            def prioritize(side, path):
                if path not in prios:
                    prios[path] = e.int("prio", -1, 2)
                return prios[path]
            st = S.SyncState(provs, prioritize=prioritize)
            ents = []
            orig = []
            punts = []
            for i in range(N):
                side = e.choose("side", 2)
                st.update(side, S.FILE, "o%d" % i, path="/f%d" % i, hash=b"h%d" % i, exists=True)
                ent = st.lookup_oid(side, "o%d" % i)
                both = e.choose("both", 2) if params.get("both") else 0
                if both:
                    st.update(1 - side, S.FILE, "p%d" % i, path="/g%d" % i, hash=b"k%d" % i, exists=True)
                    other = st.lookup_oid(1 - side, "p%d" % i)
                    ent[1 - side] = other[1 - side]
                ents.append(ent)
            if ents and len(set(id(x) for x in ents)) != N:
                return {"ok": False, "info": {"why": "entries collapsed"}}
            # (f) recorded change times strictly increase and are never earlier than the clock reading at notification
            for i, en in enumerate(ents):
                orig.append([en[0].changed, en[1].changed])
            for i, en in enumerate(ents):
                k = e.choose("punts", 3) if params.get("punts", True) else 0
                punts.append(k)
                p0 = en.priority
                for _ in range(k):
                    before = (en.priority, en[0].changed, en[1].changed)
                    en.punt()
                    # (e) each punt raises the priority by exactly one and delays the pending sides by punt_secs iff the new priority is positive
                    if not e.holds(en.priority == before[0] + 1, "punt-prio"):
                        return {"ok": False, "info": {"why": "punt did not raise priority by exactly 1"}}
                    for s in (0, 1):
                        if before[1 + s]:
                            delayed = en[s].changed == before[1 + s] + st._punt_secs[s]
                            same = en[s].changed == before[1 + s]
                            pos = en.priority > 0
                            if not e.holds(z_or(z_and(pos, delayed), z_and(z_not(pos), same)), "punt-delay"):
                                return {"ok": False, "info": {"why": "punt delay is not exactly punt_secs when the new priority is positive"}}
            age = e.real("age")
            if params.get("age0"):
                e.assume(age == 0)
            else:
                e.assume(age >= 0)
            nreads = len(clk.reads)
            r = st.change(age)
            now = clk.reads[nreads] if len(clk.reads) > nreads else None
            if now is None:
                return {"ok": False, "info": {"why": "change() did not read the clock"}}

            def elig(en):
                cs = []
                for s in (0, 1):
                    c = en[s].changed
                    if c is None or (isinstance(c, (int, float, bool)) and not c):
                        continue
                    cs.append(z_and(c != 0, c <= now - age))
                cs.append(en.priority < 0)
                return z_or(*cs)

            def key_less(a, b):
                def newest(en):
                    cs = [c for c in (en[0].changed, en[1].changed) if not (c is None or (isinstance(c, (int, float, bool)) and not c))]
                    if not cs:
                        return 0
                    if len(cs) == 1:
                        return cs[0]
                    return cs[0] if e.holds(cs[0] >= cs[1]) else (cs[1] if e.holds(cs[1] >= cs[0]) else None)
                na, nb = newest(a), newest(b)
                if na is None or nb is None:
                    return False       # order of the two sides not determined on this path: claim nothing
                return z_or(a.priority < b.priority, z_and(a.priority == b.priority, na < nb))
            info = {"punts": punts, "picked": ents.index(r) if r is not None and r in ents else None}
            if r is None:
                for en in ents:
                    if not e.holds(z_not(elig(en)), "none=>no-eligible"):
                        return {"ok": False, "info": dict(info, why="change() returned nothing although an entry is eligible")}
                if params.get("age0") and strict and not any(punts):
                    return {"ok": False, "info": dict(info, why="ageing 0 with a strictly increasing clock: pending change not eligible at once")}
            else:
                if not any(r is en for en in ents):
                    return {"ok": False, "info": dict(info, why="change() returned an unknown entry")}
                if not e.holds(elig(r), "picked-eligible"):
                    return {"ok": False, "info": dict(info, why="picked entry is not eligible (not aged and priority >= 0)")}
                for en in ents:
                    if en is r:
                        continue
                    kl = key_less(en, r)
                    if kl is False:
                        continue
                    if not e.holds(z_not(z_and(elig(en), kl)), "minimal"):
                        return {"ok": False, "info": dict(info, why="an eligible entry with lower (priority, time) was passed over")}
            # bounded delay: a punted entry is eligible again once now >= original change + punts*punt_secs + age
            for en, o, k in zip(ents, orig, punts):
                for s in (0, 1):
                    if o[s] and k:
                        bound = o[s] + k * st._punt_secs[s] + age
                        if not e.holds(z_or(z_not(now >= bound), elig(en)), "bounded-delay"):
                            return {"ok": False, "info": dict(info, why="deferred entry not eligible after change + punts*punt_secs + age")}
            return {"ok": True, "key": repr((punts, info["picked"], _trace_key(e))), "nontrivial": True}
        finally:
            S.time = saved
    return fn


def _trace_key(e):
    if e.sym:
        from props._m1 import path_key
        return path_key()
    return ""


def h_times(params, model=None):
    """(f) recorded change times strictly increase across notifications and are never earlier than the clock at notification"""
    K = params["K"]

    def fn():
        e = Env(model)
        _lab.reset()
        clk = SymClock(e, False)
        saved = S.time
        S.time = clk
        try:
            provs = (_lab.mk_provider(False), _lab.mk_provider(False))
            st = S.SyncState(provs)
            last = None
            for k in range(K):
                side = e.choose("side", 2)
                oid = "o%d" % e.choose("oid", 2)
                nreads = len(clk.reads)
                st.update(side, S.FILE, oid, path="/" + oid, hash=b"h%d" % k, exists=True)
                ent = st.lookup_oid(side, oid)
                c = ent[side].changed
                t_notified = clk.reads[nreads]
                if not e.holds(c >= t_notified, "not-earlier"):
                    return {"ok": False, "info": {"why": "recorded change time earlier than the clock at notification"}}
                if last is not None and not e.holds(c > last, "increasing"):
                    return {"ok": False, "info": {"why": "recorded change times do not strictly increase"}}
                last = c
            return {"ok": True, "key": _trace_key(e), "nontrivial": True}
        finally:
            S.time = saved
    return fn


def h_prio_path(params, model=None):
    """the priority an entry is scheduled with is the one the application's prioritise function assigns to its CURRENT path:
    it follows renames and moves (events with a new path for the same object), on either side"""
    def fn():
        e = Env(model)
        _lab.reset()
        clk = SymClock(e, False)
        saved = S.time
        S.time = clk
        try:
            provs = (_lab.mk_provider(False), _lab.mk_provider(False))
            prios = {}

            def prioritize(side, path):
                k = (side, path)
                if k not in prios:
                    prios[k] = e.int("prio", -1, 2)
                return prios[k]
            st = S.SyncState(provs, prioritize=prioritize)
            side = e.choose("side", 2)
            st.update(side, S.FILE, "o1", path="/p0", hash=b"h", exists=True)
            ent = st.lookup_oid(side, "o1")
            nmoves = e.choose("moves", params["K"] + 1)
            cur = "/p0"
            for k in range(nmoves):
                cur = "/p%d" % (k + 1)
                how = e.choose("how", 2)
                if how == 0:
                    st.update(side, S.FILE, "o1", path=cur, hash=b"h", exists=True)      # rename event
                else:
                    ent[side].path = cur                                                      # path refreshed from the provider (get_latest)
                if (side, cur) not in prios:
                    return {"ok": False, "info": {"why": "the prioritise function was not consulted for the entry's new path", "moves": k + 1}}
                if not e.holds(ent.priority == prios[(side, cur)], "prio-follows-path"):
                    return {"ok": False, "info": {"why": "entry keeps a priority assigned to a path it no longer has", "moves": k + 1}}
            age = e.real("age")
            e.assume(age >= 0)
            r = st.change(age)
            now = clk.reads[-1]
            want_now = z_or(prios[(side, cur)] < 0, ent[side].changed <= now - age)
            if r is None:
                if not e.holds(z_not(want_now), "eligible-by-current-path"):
                    return {"ok": False, "info": {"why": "entry whose current path is rated 'immediately' (or is aged) was not picked"}}
            else:
                if not e.holds(want_now, "eligible-by-current-path"):
                    return {"ok": False, "info": {"why": "entry picked before ageing although the priority of its current path is not negative"}}
            return {"ok": True, "key": _trace_key(e), "nontrivial": nmoves > 0}
        finally:
            S.time = saved
    return fn


def h_prio_related(params, model=None):
    """'immediately' survives the completion of a related entry: a folder and a file inside it are pending together, the
    application's prioritise function rates each path; one of them is finished (as the sync manager does after copying it);
    the other one, if rated negative, must still be rated negative and be picked at once whatever the ageing interval"""
    def fn():
        e = Env(model)
        _lab.reset()
        clk = SymClock(e, False)
        saved = S.time
        S.time = clk
        try:
            provs = (_lab.mk_provider(False), _lab.mk_provider(False))
            prios = {}

            def prioritize(side, path):
                k = (side, path)
                if k not in prios:
                    prios[k] = e.int("prio", -1, 2)
                return prios[k]
            st = S.SyncState(provs, prioritize=prioritize)
            side = e.choose("side", 2)
            order = e.choose("event_order", 2)
            evs = [("o1", S.DIRECTORY, "/u", None), ("o2", S.FILE, "/u/f", b"h")]
            for oid, ot, pth, hsh in (evs if order == 0 else evs[::-1]):
                st.update(side, ot, oid, path=pth, hash=hsh, exists=True)
            parent, child = st.lookup_oid(side, "o1"), st.lookup_oid(side, "o2")
            first = e.choose("finished_first", 2)
            done, other, opath = (parent, child, "/u/f") if first == 0 else (child, parent, "/u")
            done[side].changed = 0
            st.finished(done)
            if (side, opath) not in prios:
                return {"ok": False, "info": {"why": "the prioritise function was not consulted for a pending entry"}}
            if not e.holds(z_or(prios[(side, opath)] >= 0, other.priority < 0), "immediately-survives-related-finish"):
                return {"ok": False, "info": {"why": "an entry rated 'immediately' lost its negative priority when a related entry finished"}}
            age = e.real("age")
            e.assume(age >= 0)
            r = st.change(age)
            now = clk.reads[-1]
            want_now = z_or(prios[(side, opath)] < 0, other[side].changed <= now - age)
            if r is None:
                if not e.holds(z_not(want_now), "eligible-after-related-finish"):
                    return {"ok": False, "info": {"why": "entry rated 'immediately' (or aged) was not picked after a related entry finished"}}
            elif r is not other:
                return {"ok": False, "info": {"why": "change() returned an entry that is not pending"}}
            return {"ok": True, "key": _trace_key(e), "nontrivial": True}
        finally:
            S.time = saved
    return fn


AGES = [0, 0.5, 3, 10]


def h_engine(params, env=None):
    """(g) one object changed on one side: the first engine write to the peer comes no earlier than the last
    notification of a change to that object plus the ageing interval (virtual clock)"""
    def fn():
        e = env or _lab.SymEnv()
        _lab.reset()
        age = AGES[e.choose("age", len(AGES))]
        lab = Lab(params["flavour"], aging=0)
        if base_tree(lab, 1) is None:
            return {"ok": False, "info": {"why": "base not quiet"}}
        lab.cs.aging = age
        side = e.choose("side", 2)
        notified = []
        orig_update = lab.cs.state.update

        def upd(s, *a, **k):
            r = orig_update(s, *a, **k)
            notified.append((s, _lab.CLOCK.t))
            return r
        object.__setattr__(lab.cs.state, "update", upd) if False else None
        import types
        st = lab.cs.state
        st_update = type(st).update

        def patched(self_, s, *a, **k):
            r = st_update(self_, s, *a, **k)
            notified.append((s, _lab.CLOCK.t))
            return r
        type(st).update = patched
        try:
            writes = []
            lab.after_engine_write = lambda rec: writes.append((rec[0], rec[1], _lab.CLOCK.t))
            hist = []
            for k in range(params["nops"]):
                op = ["write_a", "rename_a_b", "delete_a", "create_b"][e.choose("op", 4)]
                d = do_op(lab, side, op, b"v%d" % k)
                hist.append(d)
                for j in range(params["slots"]):
                    s = e.choose("slot", 4)
                    hist.append("s%d" % s)
                    if s < 3:
                        n0 = len(writes)
                        lab.step(s)
                        for w in writes[n0:]:
                            mine = [t for sd, t in notified if sd == side]
                            if mine and w[0] == 1 - side and w[2] < max(mine) + age:
                                return {"ok": False, "info": {"why": "engine wrote to the peer before the change had aged", "write": w, "last_notified": max(mine),
                                                              "age": age, "hist": hist}}
            for _ in range(60):
                n0 = len(writes)
                for o in (0, 1, 2):
                    lab.step(o)
                for w in writes[n0:]:
                    mine = [t for sd, t in notified if sd == side]
                    if mine and w[0] == 1 - side and w[2] < max(mine) + age:
                        return {"ok": False, "info": {"why": "engine wrote to the peer before the change had aged", "write": w, "last_notified": max(mine),
                                                      "age": age, "hist": hist}}
                if not lab.busy():
                    break
            return {"ok": True, "key": repr((age, side, hist)), "nontrivial": bool(writes)}
        finally:
            type(st).update = st_update
            lab.stop_engine()
    return fn


def _mut_pick(params, model=None):
    """sensitivity twin: eligibility comparison flipped inside change()"""
    inner = h_pick(params, model)

    def fn():
        orig = S.SyncState.change

        def change(self, age):
            cs = self._changeset
            if not cs:
                return None
            changes = sorted(cs, key=lambda a: (a.priority, max(a[0].changed or 0, a[1].changed or 0)))
            now = S.time.time()
            for en in changes:
                if (en[0].changed and en[0].changed >= now - age) or (en[1].changed and en[1].changed >= now - age) or en.priority < 0:
                    return en
            return None
        S.SyncState.change = change
        try:
            return inner()
        finally:
            S.SyncState.change = orig
    return fn


HARNESSES = {"pick": h_pick, "times": h_times, "engine": h_engine, "prio-path": h_prio_path, "prio-related": h_prio_related, "pick~flipped": _mut_pick}


def replay(harness, params, model):
    if harness == "engine":
        r = _lab.replay_driver(h_engine, params, model)
        if r.get("reproduced"):
            r["sig"] = {"harness": harness, "why": (r.get("info") or {}).get("why") or r.get("symptom")}
        return r
    fn = HARNESSES[harness](dict(params), model)
    try:
        r = fn()
    except Exception as e:
        import traceback
        return {"reproduced": True, "detail": "exception: " + traceback.format_exc()[-800:], "sig": {"harness": harness, "why": type(e).__name__}}
    if r.get("ok"):
        return {"reproduced": False, "detail": "holds on replay"}
    return {"reproduced": True, "detail": str(r.get("info")), "sig": {"harness": harness, "why": r["info"].get("why")}}


def signature(harness, params, rec):
    info = rec.get("info") or {}
    return {"harness": harness, "why": info.get("why") or rec.get("exc")}


def jobs(tier):
    q = tier == "quick"
    out = [
        {"harness": "pick", "params": {"N": 1, "both": True, "punts": True}, "label": "pick/N=1/both-sides+punts", "smt_dump": 4},
    ] + ([] if q else [{"harness": "pick", "params": {"N": 2, "both": True, "punts": False}, "label": "pick/N=2/both-sides"}]) + [
        {"harness": "pick", "params": {"N": 2 if q else 3, "both": False, "punts": True}, "label": "pick/N=%d/punts" % (2 if q else 3)},
        {"harness": "pick", "params": {"N": 2 if q else 3, "both": False, "punts": False, "age0": True, "strict": True}, "label": "age0/N=%d" % (2 if q else 3)},
        {"harness": "times", "params": {"K": 3 if q else 5}, "label": "change-times/K=%d" % (3 if q else 5)},
        {"harness": "prio-related", "params": {}, "label": "immediately-survives-related-finish"},
        {"harness": "prio-path", "params": {"K": 2 if q else 3}, "label": "priority-follows-path/%d-moves" % (2 if q else 3), "smt_dump": 4},
        {"harness": "pick~flipped", "params": {"N": 1, "both": False, "punts": False}, "label": "pick~flipped", "role": "sens"},
    ]
    for f in (["oid"] if q else ["oid", "path"]):
        out.append({"harness": "engine", "params": {"flavour": f, "nops": 1, "slots": 2 if q else 3}, "label": "engine-ageing/%s" % f})
    return out


def meta(tier):
    return {
        "explanation": "M1: the real SyncState.update/update_entry/mark_changed/updated/change and SyncEntry.punt run with every time.time() read in "
                       "state.py a fresh z3 real (non-decreasing), ageing a z3 real >= 0 and priorities z3 integers in -1..2; eligibility of the picked entry, "
                       "minimality under (priority, newest change), None-iff-nothing-eligible, punt arithmetic and bounded delay are validity queries on every path. "
                       "M2: ageing from {0, 0.5, 3, 10} on the virtual clock through the real engine: time of the first peer write vs. last notification + ageing.",
        "bounds": {"entries": "2 (thorough 3)", "punts per entry": "0..2", "priorities": "-1..2", "notifications for change-time law": "3 (5)",
                   "engine": "1 (2) one-sided operations on one file, 2 schedule slots, 4 ageing values"},
        "symbolic": ["clock reads", "ageing", "prioritize() results", "which side changed, both-sides flag, punts per entry"],
        "outside": ["more entries than the bound", "priority reset on finish (related entries) beyond what the engine runs exercise", "shuffle=True (random tie break)"],
        "stubs": ["time module of cloudsync.sync.state replaced by the symbolic clock (M1) / virtual clock (M2)"],
        "assumptions": ["floats behave as reals", "'last notified of a change to that object' is read per side, as the code's disjunction over sides does"],
    }
