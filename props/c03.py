"""C03 one-sided changes mirror exactly; the origin side is untouched; no echo"""
from props import _lab
from props._lab import Lab, SymEnv, base_tree, show
from props._hist import History, Fail, result_fail, sig_from_rec, std_replay

PROP = "C03"
LEVEL = "other"
SELFTEST_PARTS = ("num",)
WALL_BUDGET = {"quick": 3600, "thorough": 14400}
OPS = ["create_a", "create_b", "write_a", "write_b", "delete_a", "delete_b", "rename_a_b", "rename_b_a", "mkdir_d", "rmdir_d", "move_a_d", "rendir_d_e",
       "mkdir_d_s", "create_d_a", "delete_d_a", "write_d_a", "mv:/d/a:/d/b"]
# fixed multi-step user stories whose schedules are explored more deeply (slots per operation given with each)
STORIES = {
    # (operations, gap after each: n fine slots | "Q" run until quiet | ("Q", n) either)
    "child-renamed-then-folder": (["mv:/d/a:/d/b", "rendir_d_e"], [1, 2]),
    "new-child-folder-renamed-child-edited": (["create_d_n", "rendir_d_e", "write_e_n"], [("Q", 1), 2, 1]),
    "folder-renamed-recreated-child-moved-back": (["rendir_d_e", "mkdir_d", "mv:/e/a:/d/a"], [("Q", 1), 1, 2]),
    "folder-renamed-then-emptied-and-removed": (["rendir_d_e", "delete_e_a", "rmdir:/e"], [2, 1, 0]),
    "renamed-and-back": (["mv:/a:/x", "mv:/x:/a"], [("Q", 2), 2]),
    "folder-renamed-and-back": (["rendir_d_e", "mvdir:/e:/d"], [("Q", 2), 2]),
    "edited-then-renamed": (["write_a", "mv:/a:/x", "write_x"], [("Q", 1), 2, 1]),
    "deleted-and-recreated": (["delete_a", "create_a", "write_a"], [("Q", 1), 2, 1]),
    "edited-three-times": (["write_a", "write_a", "write_a"], [("Q", 2), ("Q", 1), 1]),
    "moved-into-folder-and-back": (["mv:/b:/d/b", "mv:/d/b:/b"], [("Q", 2), 2]),
    "renamed-onto-a-deleted-name": (["delete_b", "mv:/a:/b"], [("Q", 2), 2]),
    "renamed-twice-then-edited": (["mv:/a:/x", "mv:/x:/y", "write_y"], [1, 2, 1]),
    "folder-two-levels-down-then-top-folder-renamed": (["mkdir:/d/t", "mkdir:/d/t/k", "rendir_d_e"], [("Q", 1), 0, 2]),
    "swapped-through-a-temporary-name": (["mv:/a:/t", "mv:/b:/a", "mv:/t:/b"], [1, 1, 2]),
    "safe-save": (["create_t", "delete_a", "mv:/t:/a"], [1, 1, 2]),
    "folder-emptied-removed-recreated": (["delete_d_a", "rmdir_d", "mkdir_d", "create_d_a"], [1, ("Q", 1), 1, 1]),
}


class OriginUntouched:
    """the tree of the side where the users work is identical before and after every engine step"""

    def __init__(self, side):
        self.side = side

    def before(self, h, which):
        self.snap = h.lab.tree(self.side)

    def after(self, h, which):
        if h.lab.tree(self.side) != self.snap:
            return "engine changed the side where the changes originated"


def _factory(params, env=None):
    def fn():
        e = env or SymEnv()
        _lab.reset()
        lab = Lab(params["flavour"])
        if base_tree(lab, params["base"]) is None:
            return {"ok": False, "info": {"why": "base tree did not become quiet"}, "sigdata": {"symptom": "base-not-quiet"}}
        side = params["side"]
        h = History(lab, e, [OriginUntouched(side)])
        h.mode = params.get("slotmode")
        h.origin = side
        try:
            first = params.get("first")
            story = STORIES[params["story"]] if params.get("story") else None
            for k in range(len(story[0]) if story else params["nops"]):
                if story:
                    op = story[0][k]
                else:
                    op = first if (k == 0 and first) else OPS[e.choose("op", len(OPS))]
                h.user(side, op, b"v%d" % k)
                if story and params.get("late"):
                    # every change may be mirrored before the peer's echo events are read (slowly polled peers)
                    last = k == len(story[0]) - 1
                    h.gap(("S", ["", "o", "os"] if last else ["", "os", "oss", "osp", "ossp", "Q"]))
                elif story:
                    h.gap(story[1][k])
                else:
                    h.slots(params["slots"])
            h.drain()
            tl, tr = lab.tree(0), lab.tree(1)
            if tl != tr:
                raise Fail("other side is not an exact mirror at quiescence", local=show(tl), remote=show(tr), symptom="not-mirrored")
            if any(".conflicted" in k for k in list(tl) + list(tr)):
                raise Fail("'.conflicted' artefact after a one-sided history", local=show(tl), symptom="conflicted-artefact")
            n0 = len(lab.calls)
            for i in range(3):
                for o in (0, 1, 2):
                    h.step(o, "echo")
            if len(lab.calls) != n0:
                raise Fail("engine kept writing after quiescence (echo)", calls=lab.calls[n0:][:4], symptom="echo")
            if lab.busy():
                raise Fail("engine busy again after quiescence", symptom="echo")
        except Fail as f:
            return result_fail(h, f, params, {"side": side})
        finally:
            lab.stop_engine()
        return {"ok": True, "key": repr(h.hist), "nontrivial": h.real_ops > 0}
    return fn


HARNESSES = {"mirror": _factory}


def replay(harness, params, model):
    return std_replay(_factory, harness, params, model)


def signature(harness, params, rec):
    sd = sig_from_rec(params, rec)
    if isinstance(sd.get("symptom"), str):
        sd["symptom"] = {"other side is not an exact mirror at quiescence": "not-mirrored", "'.conflicted' artefact after a one-sided history": "conflicted-artefact",
                         "engine kept writing after quiescence (echo)": "echo", "engine busy again after quiescence": "echo",
                         "engine not quiet after 40 fair rounds": "no-quiescence"}.get(sd["symptom"], sd["symptom"])
    sd["side"] = params["side"]
    return sd


def jobs(tier):
    out = []
    q = tier == "quick"
    combos = []
    if q:
        combos = [(f, b, s, 2, 1) for f, b in (("oid", 1), ("oid", 3), ("path", 3)) for s in (0, 1)]
    else:
        combos = [(f, b, s, 2, 2) for f in ("oid", "path") for b in (3,) for s in (0, 1)] + [(f, 1, s, 2, 1) for f in ("oid", "path") for s in (0, 1)] + \
                 [(f, b, s, 2, 1) for f in ("mixed",) for b in (1, 3) for s in (0, 1)] + \
                 [(f, b, s, 2, 1) for f in ("oid-ci", "oid-filt") for b in (0, 1, 3) for s in (0, 1)]
        # three operations with the coarser schedule (after each operation nothing or one fair round)
        for f in ("oid", "path"):
            for s_ in (0, 1):
                for op in OPS:
                    out.append({"harness": "mirror", "params": {"flavour": f, "base": 3, "side": s_, "nops": 3, "slots": 1, "slotmode": "round", "first": op},
                                "label": "%s/base3/side%d/3ops/1round/first=%s" % (f, s_, op)})
    if q:
        # deeper schedules (2 slots per operation) after an overwrite: the engine's own upload echo is still pending when the next user operation arrives
        for f in ("oid", "path"):
            for s_ in (0, 1):
                out.append({"harness": "mirror", "params": {"flavour": f, "base": 1, "side": s_, "nops": 2, "slots": 2, "first": "write_a"},
                            "label": "%s/base1/side%d/2ops/2slots/first=write_a" % (f, s_)})
    for f in ("oid", "path", "mixed"):        # 'mixed' (path ids locally, object ids remotely) is the pairing of a local folder with a cloud account
        for s_ in (0, 1):
            for name in STORIES:
                out.append({"harness": "mirror", "params": {"flavour": f, "base": 3, "side": s_, "story": name}, "label": "%s/base3/side%d/story=%s" % (f, s_, name)})
                if not q or f != "path":
                    out.append({"harness": "mirror", "params": {"flavour": f, "base": 3, "side": s_, "story": name, "late": True}, "label": "%s/base3/side%d/late-echo-story=%s" % (f, s_, name)})
    for f, b, s, n, sl in combos:
        for op in OPS:
            out.append({"harness": "mirror", "params": {"flavour": f, "base": b, "side": s, "nops": n, "slots": sl, "first": op},
                        "label": "%s/base%d/side%d/%dops/%dslots/first=%s" % (f, b, s, n, sl, op)})
    return out


def meta(tier):
    return {
        "explanation": "M2: all histories of 2 (thorough 3) user operations on ONE side (17 kinds: file create/overwrite/rename/move/delete, mkdir/rmdir, folder rename, nested), both "
                       "directions, from three previously synchronised base trees, with solver-enumerated schedule slots, through the real engine. Oracles: the origin side's tree is "
                       "identical before and after every single engine step; at quiescence the other side equals it exactly and holds no '.conflicted' name; three further fair rounds "
                       "issue no mutating provider call. In addition a list of fixed multi-step user stories (rename a child then its folder; create in a folder, rename the folder, edit the child; rename a folder, re-create it, move a child back; rename and rename back; ...) is run under every schedule of 1-3 slots per operation.",
        "bounds": {"stories": {k: {"operations": v[0], "slots after each": v[1]} for k, v in STORIES.items()}, "operations": OPS, "length": "2 (thorough: + 3 with a coarser schedule: nothing or one fair round after each operation)", "slots": "1 (2) per operation", "bases": "file; two files + folder with child (thorough + empty)", "flavours": "oid, path (thorough + mixed, case-insensitive, filtered)"},
        "symbolic": ["operation kinds", "schedule slots"],
        "outside": ["longer histories", "names outside the pool"],
        "stubs": ["engine lab determinisation (virtual clock, counter ids, entry hash order)"],
        "assumptions": ["MockProvider is a faithful provider"],
    }
