"""C02 no silent data loss: version provenance over two-sided histories on a shared name, with a corrupt-read fault"""
import io
from props import _lab
from props._lab import Lab, SymEnv, base_tree, show
from props._hist import History, Fail, result_fail, sig_from_rec, std_replay

PROP = "C02"
LEVEL = "other"
SELFTEST_PARTS = ("num",)
WALL_BUDGET = {"quick": 3600, "thorough": 14400}
OPS = ["create", "write", "delete", "mkdir", "rmdir", "corrupt", "rename_away", "move_out"]


class Versions:
    """every user write makes a version; a version is killed when a user overwrites or deletes a file holding it at that moment"""

    def __init__(self):
        self.live = {}         # bytes -> description
        self.n = 0
        self.corrupt = {}      # side -> garbage bytes currently unreadable there
        self.armed = {}        # side -> True: the engine's next download on that side fails once with a corrupt-read error (the stored bytes are fine)
        self.reported = {}     # side -> bytes the provider once reported as unreadable (transient fault)

    def new(self, tag):
        self.n += 1
        v = b"V%d-%s" % (self.n, tag.encode())
        return v


def content_at(lab, side, name):
    p = lab.p[side]
    i = p.info_path(lab.roots[side] + name)
    if not i or i.otype.value != "file":
        return None
    b = io.BytesIO()
    lab.raw_download[side](i.oid, b)
    return b.getvalue()


def install_corruption(lab, vs):
    """download of a file whose current bytes are the unreadable garbage raises CloudCorruptError (until it is overwritten)"""
    from cloudsync.exceptions import CloudCorruptError
    lab.raw_download = []
    for side, p in enumerate(lab.p):
        orig = p.download
        lab.raw_download.append(orig)

        def dl(oid, f, _orig=orig, _side=side, _p=p):
            if not lab.user_mode:
                obj = _p._mock_fs.get(oid)
                if obj is not None and obj.exists and _side in vs.corrupt and obj.contents == vs.corrupt[_side]:
                    raise CloudCorruptError("unreadable: %s" % oid)
                if obj is not None and obj.exists and vs.armed.get(_side):
                    # transient corrupt-read fault, placed at this download: this content is from now on 'reported as unreadable'
                    vs.armed[_side] = False
                    vs.reported[_side] = obj.contents
                    if _lab_content_other(lab, _side, obj) != obj.contents:
                        vs.live.pop(obj.contents, None)
                    raise CloudCorruptError("unreadable (transient): %s" % oid)
            return _orig(oid, f)
        p.download = dl


def _lab_content_other(lab, side, obj):
    """content of the peer's file of the same relative name (None if absent)"""
    rel = obj.path[len(lab.roots[side]):] if obj.path and obj.path.startswith(lab.roots[side]) else None
    if rel is None:
        return None
    p = lab.p[1 - side]
    o2 = p._mock_fs.get(p.normalize_path(lab.roots[1 - side] + rel)) if hasattr(p._mock_fs, "get") else None
    try:
        i = p.info_path(lab.roots[1 - side] + rel)
    except Exception:
        i = None
    if not i or i.otype.value != "file":
        return None
    b = io.BytesIO()
    lab.raw_download[1 - side](i.oid, b)
    return b.getvalue()


def user_op(lab, vs, side, op):
    """returns descriptor; maintains version provenance"""
    p = lab.p[side]
    root = lab.roots[side]
    name = "/a"
    from cloudsync.exceptions import CloudException

    def run():
        i = p.info_path(root + name)
        cur = content_at(lab, side, name)
        if cur is not None and vs.corrupt.get(side) == cur:
            cur_version = vs.corrupt_was       # the file a user sees here is the version it held before it rotted
        else:
            cur_version = cur
        if op == "create":
            if i:
                return ("noop", op)
            v = vs.new("c%d" % side)
            p.create(root + name, io.BytesIO(v))
            vs.live[v] = "create on side %d" % side
            return ("create", name, v)
        if op == "write":
            if cur is None:
                return ("noop", op)
            v = vs.new("w%d" % side)
            p.upload(i.oid, io.BytesIO(v))
            vs.live.pop(cur_version, None)
            vs.live[v] = "write on side %d" % side
            return ("write", name, v)
        if op == "delete":
            if cur is None:
                return ("noop", op)
            p.delete(i.oid)
            vs.live.pop(cur_version, None)
            return ("delete", name)
        if op == "rename_away":
            if cur is None or p.info_path(root + "/z"):
                return ("noop", op)
            p.rename(i.oid, root + "/z")
            return ("rename", name, "/z")
        if op == "move_out":
            # the file leaves the synchronised folder (it still exists in this account, outside the root)
            if cur is None or p.info_path("/out/a") or vs.corrupt.get(side) == cur:
                return ("noop", op)       # (moving the rotted copy away is the user's own removal of a file that no longer holds the version: not judged)
            if not p.info_path("/out"):
                p.mkdir("/out")
            p.rename(i.oid, "/out/a")
            return ("rename", name, "/out/a")
        if op == "mkdir":
            if i:
                return ("noop", op)
            p.mkdir(root + name)
            return ("mkdir", name)
        if op == "rmdir":
            if not i or i.otype.value != "dir" or list(p.listdir(i.oid)):
                return ("noop", op)
            p.delete(i.oid)
            return ("rmdir", name)
        if op == "corrupt-read":
            # not a user operation: the placement of a transient corrupt-read fault at the engine's next download on this side
            if cur is None or vs.corrupt or vs.armed or vs.reported:
                return ("noop", op)
            vs.armed[side] = True
            return ("corrupt-read", name)
        if op == "corrupt":
            # the stored bytes of this side's copy become unreadable garbage (and its hash changes)
            if cur is None or side in vs.corrupt or vs.corrupt:
                return ("noop", op)
            g = b"GARBAGE-%d" % side
            obj = p._mock_fs.get(i.oid)
            obj.contents = g
            p._register_event(_lab.MK.MockEvent.ACTION_UPDATE, obj)
            vs.corrupt[side] = g
            vs.corrupt_was = cur
            # bit rot destroys this copy; the version stays owed to the user only if the other side still holds it
            if content_at(lab, 1 - side, name) != cur:
                vs.live.pop(cur, None)
            return ("corrupt", name)
        raise ValueError(op)
    try:
        return lab.user(run)
    except CloudException as ex:
        return ("failed", op, type(ex).__name__)


class GoodCopyUntouched:
    """after one side's copy became unreadable, the engine must not write the garbage anywhere nor remove the good copy"""

    def __init__(self, vs):
        self.vs = vs

    def after(self, h, which):
        vs = self.vs
        if not vs.corrupt and not vs.reported:
            return None
        (cside, g), = (vs.corrupt or vs.reported).items()
        other = 1 - cside
        t = h.lab.tree(other)
        if any(v == g for v in t.values()):
            return "unreadable content was copied to the other side"
        return None


def _factory(params, env=None):
    def fn():
        e = env or SymEnv()
        _lab.reset()
        lab = Lab(params["flavour"])
        vs = Versions()
        install_corruption(lab, vs)
        if params["base"]:
            v0 = vs.new("base")
            lab.user(lambda: lab.p[0].create(lab.roots[0] + "/a", io.BytesIO(v0)))
            vs.live[v0] = "base"
        if lab.drain() is None:
            return {"ok": False, "info": {"why": "base tree did not become quiet"}, "sigdata": {"symptom": "base-not-quiet"}}
        h = History(lab, e, [GoodCopyUntouched(vs)])
        ops = [o for o in OPS if params.get("corrupt", True) or o != "corrupt"]
        try:
            first = params.get("first")
            prefix = params.get("prefix") or ([first] if first else [])
            for k in range(params["nops"]):
                if k < len(prefix):
                    side, op = prefix[k]
                else:
                    side = prefix[0][0] if params.get("same_side") else e.choose("side", 2)
                    op = ops[e.choose("op", len(ops))]
                d = user_op(lab, vs, side, op)
                h.hist.append((side,) + tuple(d))
                if d[0] not in ("noop", "failed"):
                    h.real_ops += 1
                h.slots(params["slotsper"][k] if params.get("slotsper") else params["slots"])
            try:
                h.drain()
            except Fail:
                if params.get("liveness"):
                    raise
                # the loss oracle does not need quiescence: it is evaluated on the trees reached within the bound
                # (failure to go quiet is C01's subject and is reported there)
            if params.get("liveness"):
                tl, tr = lab.tree(0) if not vs.corrupt else None, None
                return {"ok": True, "key": repr(h.hist), "nontrivial": h.real_ops > 0}
            lab.user_mode = True
            try:
                tl, tr = lab.tree(0), lab.tree(1)
            finally:
                lab.user_mode = False
            lab.user_mode = True
            try:
                everywhere = [lab.account(0), lab.account(1)]          # a file moved out of the root still exists in its account
            finally:
                lab.user_mode = False
            present = set(v for t in [tl, tr] + everywhere for v in t.values() if v is not None)
            lost = sorted(v.decode() for v in vs.live if v not in present)
            if lost:
                raise Fail("content a user wrote and nobody deleted or overwrote no longer exists on either side", lost=lost, local=show(tl), remote=show(tr), symptom="version-lost")
        except Fail as f:
            return result_fail(h, f, params)
        finally:
            lab.stop_engine()
        return {"ok": True, "key": repr(h.hist), "nontrivial": h.real_ops > 0}
    return fn


OPS2 = ["write:/a", "write:/b", "delete:/a", "delete:/b", "rename:/a:/b", "rename:/b:/a"]


def _two_factory(params, env=None):
    """two synchronised files: overwrites, deletes and a rename of one file onto the other's (vacated) name"""
    def fn():
        e = env or SymEnv()
        _lab.reset()
        lab = Lab(params["flavour"])
        vs = Versions()
        install_corruption(lab, vs)
        for n in ("/a", "/b"):
            v = vs.new("base" + n[1:])
            lab.user(lambda: lab.p[0].create(lab.roots[0] + n, io.BytesIO(v)))
            vs.live[v] = "base"
        if lab.drain() is None:
            return {"ok": False, "info": {"why": "base tree did not become quiet"}, "sigdata": {"symptom": "base-not-quiet"}}
        h = History(lab, e)
        from cloudsync.exceptions import CloudException
        try:
            prefix = params.get("prefix") or []
            for k in range(params["nops"]):
                if k < len(prefix):
                    side, op = prefix[k]
                else:
                    side = e.choose("side", 2)
                    op = OPS2[e.choose("op", len(OPS2))]
                p = lab.p[side]
                root = lab.roots[side]
                parts = op.split(":")

                def run():
                    src = parts[1]
                    i = p.info_path(root + src)
                    cur = content_at(lab, side, src)
                    if parts[0] == "write":
                        if cur is None:
                            return ("noop", op)
                        v = vs.new("w%d" % side)
                        p.upload(i.oid, io.BytesIO(v))
                        vs.live.pop(cur, None)
                        vs.live[v] = op
                        return ("write", src, v)
                    if parts[0] == "delete":
                        if cur is None:
                            return ("noop", op)
                        p.delete(i.oid)
                        vs.live.pop(cur, None)
                        return ("delete", src)
                    if parts[0] == "rename":
                        dst = parts[2]
                        if cur is None or p.info_path(root + dst):
                            return ("noop", op)
                        p.rename(i.oid, root + dst)
                        return ("rename", src, dst)
                try:
                    d = lab.user(run)
                except CloudException as ex:
                    d = ("failed", op, type(ex).__name__)
                h.hist.append((side,) + tuple(d))
                if d[0] not in ("noop", "failed"):
                    h.real_ops += 1
                for j in range(params["slots"]):
                    s_ = e.choose("round", 2)
                    h.hist.append("r%d" % s_)
                    if s_:
                        for o in (0, 1, 2):
                            h.step(o)
            try:
                h.drain()
            except Fail:
                pass
            tl, tr = lab.tree(0), lab.tree(1)
            present = set(v for v in list(tl.values()) + list(tr.values()) if v is not None)
            lost = sorted(v.decode() for v in vs.live if v not in present)
            if lost:
                raise Fail("content a user wrote and nobody deleted or overwrote no longer exists on either side", lost=lost, local=show(tl), remote=show(tr), symptom="version-lost")
        except Fail as f:
            return result_fail(h, f, params)
        finally:
            lab.stop_engine()
        return {"ok": True, "key": repr(h.hist), "nontrivial": h.real_ops > 0}
    return fn


HARNESSES = {"loss": _factory, "two": _two_factory}


def replay(harness, params, model):
    return std_replay(HARNESSES[harness], harness, params, model)


def signature(harness, params, rec):
    sd = sig_from_rec(params, rec)
    info = rec.get("info") or {}
    if info.get("symptom"):
        sd["symptom"] = info["symptom"]
    elif isinstance(sd.get("symptom"), str) and sd["symptom"].startswith("engine not quiet"):
        sd["symptom"] = "no-quiescence"
    elif isinstance(sd.get("symptom"), str) and sd["symptom"].startswith("unreadable content"):
        sd["symptom"] = "garbage-copied"
    return sd


def jobs(tier):
    q = tier == "quick"
    out = []
    if q:
        combos = [(f, b, 2, 1) for f in ("oid", "path") for b in (0, 1)] + [("oid", 1, 3, 0), ("path", 1, 3, 0)]
    else:
        combos = [(f, b, 2, 2) for f in ("oid", "path") for b in (0, 1)] + [(f, 1, 2, 1) for f in ("mixed", "oid-ci")] + [(f, 1, 3, 1) for f in ("oid", "path")]
    for f, b, n, sl in combos:
        for side in (0, 1):
            for op in OPS:
                out.append({"harness": "loss", "params": {"flavour": f, "base": b, "nops": n, "slots": sl, "first": [side, op]},
                            "label": "%s/base%d/%dops/%dslots/first=%d:%s" % (f, b, n, sl, side, op)})
    # transient corrupt-read fault: a synchronised file is overwritten, the engine's first download of the new version fails once as unreadable,
    # then one more operation on that side; the version reported unreadable must never replace the good copy on the peer
    for f in (("oid", "path") if q else ("oid", "path", "mixed")):
        for side in (0, 1):
            out.append({"harness": "loss", "params": {"flavour": f, "base": 1, "nops": 3, "slots": 2, "slotsper": [0, 2, 2] if q else [0, 3, 2], "prefix": [[side, "write"], [side, "corrupt-read"]], "same_side": True},
                        "label": "%s/base1/transient-corrupt-read/side%d" % (f, side)})
    for f in (("oid", "path") if q else ("oid", "path", "mixed")):
        for side in (0, 1):
            for op in OPS2:
                out.append({"harness": "two", "params": {"flavour": f, "nops": 3, "slots": 1 if q else 1, "prefix": [[side, op]]},
                            "label": "two-files/%s/3ops/first=%d:%s" % (f, side, op)})
    return out


def meta(tier):
    return {
        "explanation": "M2: two-sided histories on one shared name (create, overwrite, delete, make/remove a folder of that name, rename away, and 'this side's copy becomes unreadable') of "
                       "length 2-3 with solver-enumerated schedule slots through the real engine. Version provenance oracle: each user write makes a version; a version is killed only when a "
                       "user overwrites or deletes a file holding it at that moment; at quiescence every un-killed version must be the content of some file on some side ('.conflicted' "
                       "siblings count). Corrupt read: downloads of the unreadable bytes raise CloudCorruptError; the garbage must never appear on the other side and the good copy's "
                       "content must survive.",
        "bounds": {"operations": OPS, "length": "2 with 1 slot; 3 without slots (thorough: 2 with 2 slots, 3 with 1 slot)", "bases": "empty; /a synchronised", "flavours": "oid, path (thorough + mixed, case-insensitive)",
                   "corrupt": "at most one copy becomes unreadable per history (persistent: the stored bytes rot; or transient: the engine's first download of a freshly written version fails once, placed right after the write, followed by one more operation on that side under 2+2 slots)",
                   "two-file family": "3 operations from %s on two synchronised files, after each nothing or one fair round of engine steps" % OPS2},
        "symbolic": ["side and operation of every step", "schedule slots"],
        "outside": ["more than one shared name", "custom resolvers (C05)", "longer histories"],
        "stubs": ["engine lab determinisation", "download wrapper raising CloudCorruptError for the unreadable bytes"],
        "assumptions": ["bit rot is modelled as a content change with an update event plus unreadable downloads"],
    }
