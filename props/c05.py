"""C05 conflict-resolution contract: resolver behaviours x content pairs x conflict shapes x schedules"""
import io
from props import _lab
from props._lab import Lab, SymEnv, show, CloudSync
from props._hist import History, Fail, result_fail, sig_from_rec, std_replay

PROP = "C05"
LEVEL = "other"
SELFTEST_PARTS = ("num",)
WALL_BUDGET = {"quick": 3600, "thorough": 14400}
ANSWERS = ["local/keep", "local/drop", "remote/keep", "remote/drop", "merged/drop", "merged/keep", "none", "raises", "not-a-tuple", "wrong-arity", "not-a-file", "empty-tuple", "zero"]
BIG = b"x" * 3000
CONTENTS = [(b"A", b"B"), (b"A", b"A"), (b"", b"B"), (b"A", b""), (b"", b""), (BIG + b"1", BIG + b"2"), (BIG, BIG)]
MERGED = b"MERGED"


def _factory(params, env=None):
    def fn():
        e = env or SymEnv()
        _lab.reset()
        if params.get("answers"):
            ans = params["answers"][e.choose("answer", len(params["answers"]))]
        else:
            ans = ANSWERS[e.choose("answer", len(ANSWERS))] if params.get("answer") is None else params["answer"]
        cl, cr = CONTENTS[e.choose("contents", len(CONTENTS))] if (params.get("rounds", 1) == 1 and (not params.get("answers") or params.get("all_contents"))) else CONTENTS[0]
        calls = []
        ans_box = [ans]

        def resolve_conflict(self, f1, f2):
            ans = ans_box[0]
            d = {f1.side: f1, f2.side: f2}
            b1, b2 = f1.read(), f2.read()
            calls.append({"sides": (f1.side, f2.side), "bytes": {f1.side: b1, f2.side: b2}, "paths": (f1.path, f2.path)})
            f1.seek(0)
            f2.seek(0)
            if ans == "none":
                return None
            if ans == "raises":
                raise RuntimeError("resolver failure")
            if ans == "not-a-tuple":
                return f1
            if ans == "wrong-arity":
                return (f1, True, 3)
            if ans == "not-a-file":
                return (42, True)
            if ans == "empty-tuple":
                return ()
            if ans == "zero":
                return 0
            who, keep = ans.split("/")
            keep = keep == "keep"
            if who == "local":
                return (d[0], keep)
            if who == "remote":
                return (d[1], keep)
            return (io.BytesIO(MERGED), keep)
        shape = params["shape"]
        # schedule independence: the outcome under the canonical fair schedule, computed once per (flavour, shape, answer, contents) and worker
        ref = None
        if params.get("rounds", 1) == 1 and cl != cr:
            rk = (params["flavour"], shape, ans, cl, cr)
            if rk not in _REF:
                rl = Lab(params["flavour"], cs_methods={"resolve_conflict": resolve_conflict})
                try:
                    ok = _scenario(rl, shape, cl, cr) and rl.drain() is not None
                    _REF[rk] = (rl.tree(0), rl.tree(1)) if ok else None
                finally:
                    rl.stop_engine()
                _lab.reset()
            ref = _REF[rk]
            calls.clear()
        lab = Lab(params["flavour"], cs_methods={"resolve_conflict": resolve_conflict})
        h = History(lab, e)
        try:
            if not _scenario(lab, shape, cl, cr):
                raise Fail("base tree did not become quiet", symptom="base-not-quiet")
            calls.clear()
            h.hist.append((shape, ans, (cl[:8], cr[:8])))
            h.slots(params["slots"])
            h.drain()
            verdict = judge(lab, h, shape, ans, cl, cr, calls, ({}, {}))
            if ref is not None and (lab.tree(0), lab.tree(1)) != ref:
                raise Fail("the outcome depends on how engine steps interleave after the conflict exists", symptom="schedule-dependent",
                           local=show(_short(lab.tree(0))), remote=show(_short(lab.tree(1))), canonical_local=show(_short(ref[0])), canonical_remote=show(_short(ref[1])))
            if params.get("rounds", 1) == 1 or cl == cr:
                return verdict
            # -- second conflict on the same file: both sides edit again after the first conflict was settled
            old_conf = tuple({k: v for k, v in t.items() if ".conflicted" in k} for t in (lab.tree(0), lab.tree(1)))
            ans2 = ANSWERS[e.choose("answer2", len(ANSWERS))]
            cl2, cr2 = [(b"A2", b"B2"), (b"S2", b"S2")][e.choose("contents2", 2)]
            calls.clear()
            lab.user(lambda: lab.p[0].upload(lab.p[0].info_path("/L/a").oid, io.BytesIO(cl2)))
            lab.user(lambda: lab.p[1].upload(lab.p[1].info_path("/R/a").oid, io.BytesIO(cr2)))
            ans_box[0] = ans2
            h.hist.append(("second", ans2, (cl2, cr2)))
            h.slots(params.get("slots2", 2))
            h.drain()
            return judge(lab, h, "second:" + shape, ans2, cl2, cr2, calls, old_conf)
        except Fail as f:
            sd = {"answer": ans_box[0], "shape": shape, "ops": None}
            if len(h.hist) > 1 and any(isinstance(x, tuple) and x[0] == "second" for x in h.hist):
                sd["after_first_answer"] = ans
            return result_fail(h, f, params, sd)
        finally:
            lab.stop_engine()
    return fn


_REF = {}


def _scenario(lab, shape, cl, cr):
    """bring the conflict into existence (no engine step after it)"""
    if shape == "edit/edit":
        lab.user(lambda: lab.p[0].create("/L/a", io.BytesIO(b"base")))
        if lab.drain() is None:
            return False
        lab.user(lambda: lab.p[0].upload(lab.p[0].info_path("/L/a").oid, io.BytesIO(cl)))
        lab.user(lambda: lab.p[1].upload(lab.p[1].info_path("/R/a").oid, io.BytesIO(cr)))
    else:
        lab.user(lambda: lab.p[0].create("/L/a", io.BytesIO(cl)))
        lab.user(lambda: lab.p[1].create("/R/a", io.BytesIO(cr)))
    return True


def judge(lab, h, shape, ans, cl, cr, calls, old_conf):
    """the statement's oracle for one conflict; old_conf = per side, the '.conflicted' files (name -> content) that existed before it"""
    tl, tr = lab.tree(0), lab.tree(1)
    tl = {k: v for k, v in tl.items() if not (k in old_conf[0] and old_conf[0][k] == v)}
    tr = {k: v for k, v in tr.items() if not (k in old_conf[1] and old_conf[1][k] == v)}
    info = dict(local=show(_short(tl)), remote=show(_short(tr)), answer=ans, calls=len(calls))
    key = repr((shape, ans, cl[:4], cr[:4], h.hist[1:]))
    # -- when (and only when) contents differ, the resolver is called once, with the two sides' actual bytes and labels
    if cl == cr:
        if calls:
            raise Fail("resolver called although both sides hold identical content", symptom="called-on-equal", **info)
        if tl != {"/a": cl} or tr != {"/a": cl}:
            raise Fail("identical content was not merged silently", symptom="equal-not-merged", **info)
        return {"ok": True, "key": key, "nontrivial": True}
    if len(calls) != 1:
        raise Fail("resolver called %d times for one conflict" % len(calls), symptom="call-count", **info)
    c = calls[0]
    if sorted(c["sides"]) != [0, 1] or c["bytes"][0] != cl or c["bytes"][1] != cr:
        raise Fail("resolver handles do not carry the two sides' actual bytes and side labels", symptom="bad-handles", **info)
    # -- outcome table
    who, _, keepw = ans.partition("/")
    if ans in ("none", "raises", "not-a-tuple", "wrong-arity", "not-a-file", "empty-tuple", "zero"):
        win, lose, keep = cr, cl, True           # remote wins, local kept
    elif who == "local":
        win, lose, keep = cl, cr, keepw == "keep"
    elif who == "remote":
        win, lose, keep = cr, cl, keepw == "keep"
    else:
        win, lose, keep = MERGED, None, keepw == "keep"
    if tl.get("/a") != win or tr.get("/a") != win:
        raise Fail("both sides do not end with the resolver's answer at the path", symptom="wrong-winner", **info)
    conf = {k: v for t in (tl, tr) for k, v in t.items() if ".conflicted" in k}
    if who == "merged":
        if not keep and (conf or set(tl) != {"/a"} or set(tr) != {"/a"}):
            raise Fail("merged answer with keep=False left extra files", symptom="merged-extras", **info)
        if keep and not (cl in conf.values() and cr in conf.values()):
            raise Fail("merged answer with keep=True did not keep both originals", symptom="merged-keep-lost", **info)
    else:
        if keep and lose not in conf.values():
            raise Fail("losing version not kept as a '.conflicted' sibling although keep is true", symptom="loser-not-kept", **info)
        if not keep and conf:
            raise Fail("'.conflicted' sibling present although keep is false", symptom="loser-kept", **info)
    return {"ok": True, "key": key, "nontrivial": True}


def _short(t):
    return {k: (v[:12] if isinstance(v, bytes) else v) for k, v in t.items()}


def _mut(params, env=None):
    """sensitivity twin: the silent same-hash merge is disabled (resolver would be called on equal contents)"""
    inner = _factory(params, env)

    def fn():
        M = _lab.M
        orig = M.SyncManager.handle_split_conflict

        def hsc(self, defer_ent, defer_side, replace_ent, replace_side):
            if defer_ent[defer_side].otype == M.FILE:
                if not self.download_changed(defer_side, defer_ent):
                    return False
            self.resolve_conflict((defer_ent[defer_side], replace_ent[replace_side]))
            return True
        M.SyncManager.handle_split_conflict = hsc
        try:
            return inner()
        finally:
            M.SyncManager.handle_split_conflict = orig
    return fn


HARNESSES = {"resolve": _factory, "resolve~no-silent-merge": _mut}


def replay(harness, params, model):
    return std_replay(HARNESSES[harness], harness, params, model)


def signature(harness, params, rec):
    info = rec.get("info") or {}
    hist = info.get("hist") or [[None, None]]
    tuples = [x for x in hist if isinstance(x, (list, tuple))]
    first = tuples[-1] if tuples else [None, None]          # the conflict that was being judged (the second one in the two-conflict family)
    sym = info.get("symptom") or info.get("why") or rec.get("exc")
    if isinstance(sym, str) and sym.startswith("engine not quiet"):
        sym = "no-quiescence"
    sd = {"flavour": params["flavour"], "shape": params["shape"], "answer": first[1] if len(first) > 1 else None, "symptom": sym, "ops": None}
    if len(tuples) > 1:
        sd["after_first_answer"] = tuples[0][1]
    return sd


def jobs(tier):
    q = tier == "quick"
    out = []
    for f in (("oid", "path") if q else ("oid", "path", "mixed", "oid-ci")):
        for shape in ("create/create", "edit/edit"):
            out.append({"harness": "resolve", "params": {"flavour": f, "shape": shape, "slots": 2 if q else 3}, "label": "%s/%s/%d-slots" % (f, shape, 2 if q else 3)})
    # providers with different hash functions (every real pair): identical content must still be recognised as identical
    for f in ("oid-h2", "path-h2"):
        for shape in ("create/create", "edit/edit"):
            out.append({"harness": "resolve", "params": {"flavour": f, "shape": shape, "slots": 2, "answers": ["none", "local/keep", "merged/drop"], "all_contents": True},
                        "label": "%s/%s/2-slots/different-hash-functions" % (f, shape)})
    # long schedules (5 slots: e.g. both intakes, then three sync steps before the next intake) on the outcomes that rename the loser aside
    for f in (("path", "oid") if q else ("oid", "path", "mixed")):
        for shape in ("create/create", "edit/edit"):
            if q and f == "oid" and shape == "edit/edit":
                continue
            out.append({"harness": "resolve", "params": {"flavour": f, "shape": shape, "slots": 5, "answers": ["none", "remote/keep", "local/keep"]},
                        "label": "%s/%s/5-slots/keep-answers" % (f, shape)})
    # two successive conflicts on one file: the first settled by each of the well-formed answers (no schedule freedom), the second by any answer under every 2-slot schedule
    for f in (("oid", "path") if q else ("oid", "path", "mixed")):
        for a1 in ("local/drop", "local/keep", "remote/drop", "remote/keep", "merged/drop"):
            out.append({"harness": "resolve", "params": {"flavour": f, "shape": "edit/edit", "slots": 0, "rounds": 2, "answer": a1, "slots2": 2 if q else 3},
                        "label": "%s/two-conflicts/first=%s" % (f, a1)})
    out.append({"harness": "resolve~no-silent-merge", "params": {"flavour": "oid", "shape": "create/create", "slots": 1, "answer": "none"}, "label": "resolve~no-silent-merge", "role": "sens"})
    return out


def meta(tier):
    return {
        "explanation": "M2: both conflict shapes (create/create, edit/edit) x 7 content pairs (different, equal, empty on either/both sides, > 2 KiB different/equal) x 11 resolver behaviours "
                       "(pick either side x keep, merged data x keep, None, exception, non-tuple, wrong arity, non-file) x every schedule of 2 (thorough 3) slots after the conflict exists, "
                       "through the real engine with the application's resolver replaced. Oracles: call count (0 iff equal contents, else exactly 1), bytes and side labels of both handles, "
                       "the outcome table of the statement on both final trees; and schedule independence: both final trees equal, exactly, those the same conflict produces under the canonical fair schedule. A second family settles a first conflict (5 well-formed answers) and then lets both sides edit the same file again: the second conflict is judged by the same oracle under every schedule.",
        "bounds": {"answers": ANSWERS, "content pairs": [(a[:4].decode("latin1"), b[:4].decode("latin1")) for a, b in CONTENTS], "slots": "2 (3)", "flavours": "oid, path (thorough + mixed, case-insensitive); plus both with a second hash function on the remote provider"},
        "symbolic": ["resolver behaviour", "content pair", "schedule slots"],
        "outside": ["arbitrary contents beyond the representative pairs", "conflicts on more than one file at once", "more than two successive conflicts on one file", "folder/file conflicts (C02)"],
        "stubs": ["engine lab determinisation", "CloudSync.resolve_conflict overridden in a subclass (the documented override point)"],
        "assumptions": [],
    }
