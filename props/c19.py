"""C19 hierarchical path/id cache: solver-chosen call sequences on the real HierarchicalCache; structural invariants
and a dictionary model checked after every call"""
from props import _lab

PROP = "C19"
LEVEL = "other"
SELFTEST_PARTS = ("num",)
WALL_BUDGET = {"quick": 3600, "thorough": 14400}
PATHS = ["/a", "/b", "/A", "/a/a", "/a/b", "/b/a"]
OIDS = ["o1", "o2", "o3", None]
OPS = ["create", "mkdir", "rename", "delete_path", "delete_oid", "set_oid", "update"]
REJECT = (AssertionError, ValueError, LookupError)


class Model:
    """plain dictionary of what was inserted and not since invalidated: key path -> [oid, is_dir]"""

    def __init__(self, fold):
        self.fold = fold
        self.t = {}

    def key(self, p):
        p = "/" + "/".join(x for x in p.replace("\\", "/").split("/") if x)
        return p.lower() if self.fold else p

    def under(self, k):
        return [q for q in self.t if q == k or q.startswith(k + "/")]

    def remove(self, k):
        for q in self.under(k):
            del self.t[q]

    def evict_oid(self, oid):
        if oid is None:
            return
        for q in [q for q, v in self.t.items() if v[0] == oid]:
            if q in self.t:
                self.remove(q)

    def parents(self, k):
        parts = k.split("/")[1:-1]
        cur = ""
        for x in parts:
            cur += "/" + x
            v = self.t.get(cur)
            if v is None or not v[1]:
                self.remove(cur)
                self.t[cur] = [None, True]

    def insert(self, k, oid, is_dir):
        self.parents(k)
        self.remove(k)
        self.evict_oid(oid)
        self.parents(k) if not all(a in self.t for a in self._anc(k)) else None
        self.t[k] = [oid, is_dir]

    def _anc(self, k):
        parts = k.split("/")[1:-1]
        out, cur = [], ""
        for x in parts:
            cur += "/" + x
            out.append(cur)
        return out


def structural(cache, prov):
    """returns None or a description of the first broken invariant"""
    root = cache._root
    seen = {}
    byoid = {}
    stack = [(root, "/")]
    while stack:
        node, path = stack.pop()
        if id(node) in seen:
            return "cycle or shared node at %s" % path
        seen[id(node)] = path
        if node.oid is not None:
            if node.oid in byoid:
                return "id %s held by two nodes (%s, %s)" % (node.oid, byoid[node.oid], path)
            byoid[node.oid] = path
        if node.children and node.type.value != "dir":
            return "file node with children at %s" % path
        for name, ch in node.children.items():
            if ch.parent is not node:
                return "child %s/%s has a different parent link" % (path, name)
            if ch.name != name:
                return "child key %r differs from its name %r" % (name, ch.name)
            stack.append((ch, path.rstrip("/") + "/" + name))
    for oid, node in cache._oid_to_node.items():
        if id(node) not in seen:
            return "id index holds %s for a node that is not in the tree" % (oid,)
        if node.oid != oid:
            return "id index entry %s leads to a node carrying %s" % (oid, node.oid)
    for oid, path in byoid.items():
        if oid not in cache._oid_to_node:
            return "node at %s carries id %s missing from the id index" % (path, oid)
        gp = cache.get_path(oid)
        if gp is None or cache.get_oid(gp) != oid:
            return "id %s -> path %r does not resolve back" % (oid, gp)
        if not prov.paths_match(gp, path):
            return "get_path(%s) = %r but the node sits at %r" % (oid, gp, path)
    return None


def functional(cache, model, prov):
    tree = {}
    stack = [(cache._root, "")]
    while stack:
        node, path = stack.pop()
        for name, ch in node.children.items():
            p = path + "/" + name
            tree[model.key(p)] = [ch.oid, ch.type.value == "dir"]
            stack.append((ch, p))
    if tree != model.t:
        return "cache content differs from the dictionary model: cache=%r model=%r" % (sorted(tree.items()), sorted(model.t.items()))
    for k, (oid, is_dir) in model.t.items():
        if cache.get_oid(k) != oid:
            return "get_oid(%s) = %r, model %r" % (k, cache.get_oid(k), oid)
        t = cache.get_type(path=k)
        if t is None or (t.value == "dir") != is_dir:
            return "get_type(%s) disagrees with the model" % k
        if is_dir:
            kids = sorted(model.key(k + "/" + n) for n in cache.listdir(path=k))
            want = sorted(q for q in model.t if q.startswith(k + "/") and "/" not in q[len(k) + 1:])
            if kids != want:
                return "listdir(%s) = %r, model %r" % (k, kids, want)
    walked = sorted(model.key(p) for p in cache.walk() if model.key(p) != "/")
    if walked != sorted(model.t):
        return "walk() = %r, model %r" % (walked, sorted(model.t))
    for p in PATHS:
        if model.key(p) not in model.t and cache.get_oid(p) is not None:
            return "get_oid(%s) answers for an invalidated path" % p
    return None


def _ancestor_holds(model, kp, oid):
    """is oid held by a strict ancestor of the (normalised) path kp?  An object cannot carry the id of one of its own ancestors:
    no provider reports that, and the real code detaches the target together with the ancestor it evicts"""
    if oid is None:
        return False
    parts = kp.split("/")
    for i in range(2, len(parts)):
        anc = "/".join(parts[:i])
        if anc in model.t and model.t[anc][0] == oid:
            return True
    return False


def h_seq(params, env=None):
    def fn():
        e = env or _lab.SymEnv()
        _lab.reset()
        from cloudsync.hierarchical_cache import HierarchicalCache
        from cloudsync.types import FILE, DIRECTORY
        prov = _lab.mk_provider(False, params["case_sensitive"])
        cache = HierarchicalCache(prov, "root")
        model = Model(not params["case_sensitive"])
        calls = []
        PATHS = params.get("paths") or globals()["PATHS"]
        OIDS = params.get("oids") or globals()["OIDS"]
        NO = len(OIDS) - 1
        # a concrete, already populated cache (three levels deep, every node with its own id) the symbolic calls start from
        for bop, bp, boid in params.get("base") or []:
            (cache.mkdir if bop == "mkdir" else cache.create)(bp, boid)
            model.insert(model.key(bp), boid, bop == "mkdir")
            calls.append((bop, bp, boid, "base"))
        if params.get("base"):
            why = structural(cache, prov) or functional(cache, model, prov)
            if why:
                return {"ok": False, "info": {"why": why, "kind": "model", "calls": calls}}
        for k in range(params["K"]):
            op = OPS[e.choose("op", len(OPS))]
            rejected = None
            try:
                if op in ("create", "mkdir"):
                    p = PATHS[e.choose("path", len(PATHS))]
                    oid = OIDS[e.choose("oid", len(OIDS) - (1 if op == "create" else 0))]
                    calls.append((op, p, oid))
                    if _ancestor_holds(model, model.key(p), oid):
                        calls[-1] = calls[-1] + ("skipped: id of an own ancestor",)
                        continue
                    if op == "create":
                        cache.create(p, oid)
                    else:
                        cache.mkdir(p, oid)
                    model.insert(model.key(p), oid, op == "mkdir")
                elif op == "rename":
                    src = PATHS[e.choose("path", len(PATHS))]
                    dst = PATHS[e.choose("dst", len(PATHS))]
                    calls.append((op, src, dst))
                    ks, kd = model.key(src), model.key(dst)
                    if kd.startswith(ks + "/"):
                        calls[-1] = (op, src, dst, "skipped: into its own subtree")
                        continue
                    cache.rename(src, dst)
                    if kd == ks:
                        # onto the same path (another spelling, or a case-only rename on a case-insensitive provider): nothing may be lost
                        why = structural(cache, prov) or functional(cache, model, prov)
                        if why:
                            return {"ok": False, "info": {"why": why, "kind": "model", "calls": calls}}
                        continue
                    moved = [(q, model.t[q]) for q in model.under(ks)]
                    model.remove(ks)
                    model.remove(kd)
                    if moved:
                        model.parents(kd)
                        for q, v in moved:
                            model.t[kd + q[len(ks):]] = v
                elif op == "delete_path":
                    p = (PATHS + ["/"])[e.choose("path", len(PATHS) + 1)]          # "/" = invalidate everything
                    calls.append((op, p))
                    cache.delete(path=p)
                    if p == "/":
                        model.t.clear()
                    else:
                        model.remove(model.key(p))
                elif op == "delete_oid":
                    oid = (OIDS[:NO] + ["root"])[e.choose("oid", NO + 1)]           # "root" = the root's id: invalidate everything
                    calls.append((op, oid))
                    cache.delete(oid=oid)
                    if oid == "root":
                        model.t.clear()
                    else:
                        model.evict_oid(oid)
                elif op == "set_oid":
                    p = PATHS[e.choose("path", len(PATHS))]
                    oid = OIDS[e.choose("oid", NO)]
                    isdir = e.choose("isdir", 2)
                    calls.append((op, p, oid, isdir))
                    if _ancestor_holds(model, model.key(p), oid):
                        calls[-1] = calls[-1] + ("skipped: id of an own ancestor",)
                        continue
                    cache.set_oid(p, oid, DIRECTORY if isdir else FILE)
                    kp = model.key(p)
                    cur = model.t.get(kp)
                    if cur is None:
                        model.insert(kp, oid, bool(isdir))
                    elif cur[0] != oid:
                        if cur[0] is None:
                            model.evict_oid(oid)
                            if kp in model.t:
                                model.t[kp][0] = oid
                        else:
                            model.evict_oid(oid)
                            if kp in model.t:
                                model.insert(kp, oid, cur[1])     # replaced by a fresh node: descendants are forgotten
                elif op == "update":
                    p = PATHS[e.choose("path", len(PATHS))]
                    oid = OIDS[e.choose("oid", len(OIDS))]
                    isdir = e.choose("isdir", 2)
                    calls.append((op, p, oid, isdir))
                    if _ancestor_holds(model, model.key(p), oid):
                        calls[-1] = calls[-1] + ("skipped: id of an own ancestor",)
                        continue
                    cache.update(p, DIRECTORY if isdir else FILE, oid=oid)
                    kp = model.key(p)
                    cur = model.t.get(kp)
                    if cur is None or cur[1] != bool(isdir):
                        model.insert(kp, oid, bool(isdir))
                    elif oid and cur[0] != oid:
                        if cur[0] is None:
                            model.evict_oid(oid)
                            if kp in model.t:
                                model.t[kp][0] = oid
                        else:
                            model.evict_oid(oid)
                            if kp in model.t:
                                model.insert(kp, oid, cur[1])
            except REJECT as ex:
                rejected = type(ex).__name__
                calls[-1] = calls[-1] + ("rejected:" + rejected,)
            why = structural(cache, prov)
            if why:
                return {"ok": False, "info": {"why": why, "kind": "structure", "calls": calls}}
            if rejected:
                # a rejected call may have evicted entries before refusing: re-read the model from the (coherent) cache
                model.t = {}
                stack = [(cache._root, "")]
                while stack:
                    node, path = stack.pop()
                    for name, ch in node.children.items():
                        model.t[model.key(path + "/" + name)] = [ch.oid, ch.type.value == "dir"]
                        stack.append((ch, path + "/" + name))
                continue
            why = functional(cache, model, prov)
            if why:
                return {"ok": False, "info": {"why": why, "kind": "model", "calls": calls}}
        return {"ok": True, "key": repr(calls), "nontrivial": True}
    return fn


def _mut(params, env=None):
    """sensitivity twin: delete no longer pops descendants' ids"""
    inner = h_seq(params, env)

    def fn():
        import cloudsync.hierarchical_cache as HC
        orig = HC.HierarchicalCache._delete

        def _delete(self, remove_node):
            if not remove_node or remove_node.is_root:
                return None
            remove_node.parent.children.pop(remove_node.name, None)
            if remove_node.oid:
                self._oid_to_node.pop(remove_node.oid, None)
            remove_node.parent = None
            return remove_node
        HC.HierarchicalCache._delete = _delete
        try:
            return inner()
        finally:
            HC.HierarchicalCache._delete = orig
    return fn


HARNESSES = {"seq": h_seq, "seq~shallow-delete": _mut}


def _cls(why):
    import re
    why = why or ""
    return re.sub(r"(o[0-9]|/[aAb](/[ab])?|'[^']*'|\[.*)", "_", why)[:70]


def replay(harness, params, model):
    r = _lab.replay_driver(HARNESSES[harness], params, model)
    if r.get("reproduced"):
        info = r.get("info") or {}
        r["sig"] = {"kind": info.get("kind") or r.get("symptom"), "class": _cls(info.get("why")), "last": (info.get("calls") or [[None]])[-1][0],
                    "case_sensitive": params["case_sensitive"]}
    return r


def signature(harness, params, rec):
    info = rec.get("info") or {}
    return {"kind": info.get("kind") or rec.get("exc"), "class": _cls(info.get("why")), "last": (info.get("calls") or [[None]])[-1][0],
            "case_sensitive": params["case_sensitive"]}


def jobs(tier):
    q = tier == "quick"
    out = []
    for cs in (True, False):
        out.append({"harness": "seq", "params": {"case_sensitive": cs, "K": 2}, "label": "cache/%s/2-calls" % ("cs" if cs else "ci")})
        if not q:
            out.append({"harness": "seq", "params": {"case_sensitive": cs, "K": 3, "paths": ["/a", "/A", "/a/a", "/b"], "oids": ["o1", "o2", None]},
                        "label": "cache/%s/3-calls/4-paths-2-ids" % ("cs" if cs else "ci")})
    # from a populated three-level tree: subtree operations must carry / forget *every* level (seeds C19-E/F)
    base = [["mkdir", "/a", "x1"], ["mkdir", "/a/b", "x2"], ["create", "/a/b/a", "x3"], ["mkdir", "/b", "x4"], ["create", "/b/a", "x5"]]
    for cs in (True, False):
        out.append({"harness": "seq", "params": {"case_sensitive": cs, "K": 1 if q else 2, "base": base, "paths": ["/a", "/b", "/A", "/a/b", "/b/a", "/a/b/a", "/c"],
                                                 "oids": ["o1", "x1", "x3", None]},
                    "label": "cache/%s/base-3-levels/%d-call%s" % ("cs" if cs else "ci", 1 if q else 2, "" if q else "s")})
    out.append({"harness": "seq~shallow-delete", "params": {"case_sensitive": True, "K": 2}, "label": "cache~shallow-delete", "role": "sens"})
    return out


def meta(tier):
    return {
        "explanation": "M2: every sequence of 2 (thorough 3) HierarchicalCache calls from {create, mkdir, rename, delete by path, delete by id, set_oid, update} over 6 paths of depth <= 2 "
                       "(with a case variant) and 3 ids + None is enumerated by the solver on the real class; after every call the tree is walked for cycles, parent/child consistency, "
                       "exact id index, id uniqueness, id<->path inverse, and compared with a dictionary model through get_oid/get_type/listdir/walk.",
        "bounds": {"base tree": "also 1 (2) calls from a populated tree /a(x1)/b(x2)/a(x3), /b(x4)/a(x5)", "calls": "2 (3)", "paths": PATHS, "ids": OIDS, "case modes": "sensitive, insensitive"},
        "symbolic": ["operation, path, id, type of every call"],
        "outside": ["longer sequences", "renames into the node's own subtree (no provider performs them)", "giving a node the id that one of its own ancestors holds (no provider reports that; found by the 3-call tier: the real code then leaves the id index pointing at a detached node or raises TypeError)", "metadata templates"],
        "stubs": ["MockProvider as the path-convention provider"],
        "assumptions": ["a call refused with AssertionError/ValueError/LookupError is a rejected call: the structure must stay coherent, the model is re-read from it"],
    }
