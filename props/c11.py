"""C11 sync-state index integrity: solver-chosen sequences of state-level operations on the real SyncState, and every
state the engine reaches in the C01 family; invariants checked after each step"""
from props import _lab
from props._lab import S, Lab, SymEnv, do_op, base_tree

PROP = "C11"
LEVEL = "other"
SELFTEST_PARTS = ("num",)
WALL_BUDGET = {"quick": 3600, "thorough": 14400}
OIDS = ["o1", "o2", "o3"]
PATHS = [None, "/a", "/b", "/a/c"]


def invariants(st):
    """None, or the first broken index invariant"""
    live = st.get_all(discarded=True)
    for side in (0, 1):
        for oid, ent in st._oids[side].items():
            if ent[side].oid != oid:
                return "id slot %r leads to an entry carrying %r" % (oid, ent[side].oid)
        for path, d in st._paths[side].items():
            if not d:
                return "empty path bucket %r" % (path,)
            for oid, ent in d.items():
                if ent[side].path != path or ent[side].oid != oid:
                    return "(path,id) slot leads to an entry that no longer carries it"
                if st._oids[side].get(oid) is not ent:
                    return "(path,id) slot's entry is not the id index's entry"
        owners = {}
        for ent in live:
            o = ent[side].oid
            if o is not None:
                if o in owners and owners[o] is not ent:
                    return "two live entries own id %r on one side" % (o,)
                owners[o] = ent
                if st._oids[side].get(o) is not ent:
                    return "live entry not found under its id"
                if ent[side].path:
                    if st._paths[side].get(ent[side].path, {}).get(o) is not ent:
                        return "live entry not found under its path"
                    if ent not in st.lookup_path(side, ent[side].path, stale=True):
                        return "lookup_path does not return the live entry"
                if st.lookup_oid(side, o) is not ent:
                    return "lookup_oid does not return the live entry"
    expect = set(e for e in live if any(e[s].changed and e[s].oid is not None for s in (0, 1)))
    got = set(st._changeset_storage)
    if got != expect:
        forgotten = [e for e in got if e not in live]
        if forgotten:
            return "pending set holds a forgotten entry"
        if got - expect:
            return "pending set holds an entry without a change flag on a side that has an id"
        return "entry with a change flag and an id is missing from the pending set"
    return None


def h_state(params, env=None):
    def fn():
        e = env or SymEnv()
        _lab.reset()
        oip = params["oid_is_path"]
        provs = (_lab.mk_provider(oip), _lab.mk_provider(oip))
        st = S.SyncState(provs)
        from cloudsync.types import FILE, DIRECTORY, IgnoreReason
        hist = []
        OIDS = globals()["OIDS"][:params.get("noids", 3)]
        NPRIOR = params.get("nprior", 4)
        for k in range(params["K"]):
            op = e.choose("op", 5)
            side = e.choose("side", 2)
            try:
                if op <= 1:
                    oid = OIDS[e.choose("oid", len(OIDS))]
                    path = PATHS[e.choose("path", 4)]
                    exists = [True, False, None][e.choose("exists", 3)]
                    prior = ([None] + OIDS)[e.choose("prior", min(NPRIOR, len(OIDS) + 1) if oip else 1)]
                    otype = (FILE, DIRECTORY)[op]
                    hist.append(("event", side, otype.value, oid, path, exists, prior))
                    if otype == DIRECTORY and path and prior:
                        pe = st.lookup_oid(side, prior)
                        if pe and pe[side].path and path.startswith(pe[side].path + "/"):
                            hist[-1] = hist[-1] + ("skipped: folder moved into itself",)
                            continue
                    if otype == DIRECTORY and path:
                        ce = st.lookup_oid(side, oid)
                        if ce and ce[side].path and path.startswith(ce[side].path + "/"):
                            hist[-1] = hist[-1] + ("skipped: folder moved into itself",)
                            continue
                    st.update(side, otype, oid, path=path, hash=b"h%d" % k if otype == FILE else None, exists=exists, prior_oid=prior)
                elif op == 2:
                    ents = sorted(st.get_all(discarded=True), key=lambda x: x._hseq)
                    if not ents:
                        hist.append(("nothing",))
                        continue
                    en = ents[e.choose("ent", len(ents))]
                    what = e.choose("what", 6)
                    hist.append(("assign", en._hseq, side, what))
                    if what == 0:
                        en[side].changed = 0
                    elif what == 1:
                        en.ignore(IgnoreReason.DISCARDED)
                    elif what == 2:
                        if en[side].oid:
                            np_ = PATHS[1 + e.choose("newpath", 3)]
                            if en[side].otype == DIRECTORY and en[side].path and np_.startswith(en[side].path + "/"):
                                continue
                            en[side].path = np_
                    elif what == 3:
                        en[side].oid = OIDS[e.choose("newoid", len(OIDS))]
                    elif what == 4:
                        en[side].changed = 5.0
                    elif what == 5:
                        en.ignore(IgnoreReason.CONFLICT)
                elif op == 3:
                    ents = sorted([x for x in st.get_all() if x[0].oid], key=lambda x: x._hseq)
                    if not ents:
                        hist.append(("nothing",))
                        continue
                    en = ents[e.choose("ent", len(ents))]
                    hist.append(("split", en._hseq))
                    st.split(en)
                elif op == 4:
                    ents = sorted(st.get_all(discarded=True), key=lambda x: x._hseq)
                    if len(ents) < 2:
                        hist.append(("nothing",))
                        continue
                    a = ents[e.choose("ent", len(ents))]
                    b = ents[e.choose("ent2", len(ents))]
                    if a is b or not b[side].oid:
                        continue
                    hist.append(("merge", a._hseq, b._hseq, side))
                    a[side] = b[side]
            except AssertionError as ex:
                # the state refuses the operation by assertion: a rejected call must still leave the indexes coherent
                hist[-1] = hist[-1] + ("rejected",)
            except RecursionError:
                return {"ok": False, "info": {"why": "RecursionError inside a state operation", "hist": hist}}
            why = invariants(st)
            if why:
                return {"ok": False, "info": {"why": why, "hist": hist}}
        return {"ok": True, "key": repr(hist), "nontrivial": True}
    return fn


def h_state2(params, env=None):
    """operations from a previously synchronised base state (two entries with both sides populated), mixed id styles
    (local ids are paths, remote ids are object ids) or same style on both sides; size: 'tiny' | 'medium' | 'full'"""
    def fn():
        e = env or SymEnv()
        _lab.reset()
        lp = params["local_path_ids"]
        provs = (_lab.mk_provider(lp), _lab.mk_provider(False))
        st = S.SyncState(provs)
        from cloudsync.types import FILE, DIRECTORY, IgnoreReason
        size = params["size"]
        names = ["/a", "/b"] + ([] if size == "tiny" else ["/a/c"])
        loids = names if lp else ["l-a", "l-b", "l-c"][:len(names)]
        roids = ["r-a", "r-b", "r-c"][:len(names)]
        hist = []
        # ---- base: /a and /b synchronised
        for i, n in enumerate(names[:2]):
            st.update(0, FILE, loids[i], path=n, hash=b"h" + n.encode(), exists=True)
            ent = st.lookup_oid(0, loids[i])
            ent[1].oid = roids[i]
            ent[1].path = n
            ent[1].hash = b"h" + n.encode()
            ent[1].exists = S.EXISTS
            for sd in (0, 1):
                ent[sd].sync_hash = ent[sd].hash
                ent[sd].sync_path = n
                ent[sd].changed = 0
            st.finished(ent)
        why = invariants(st)
        if why:
            return {"ok": False, "info": {"why": "base state: " + why, "hist": hist}}
        kinds = ["event", "assign"] + ([] if size == "tiny" else ["split", "merge", "finished"])
        for k in range(params["K"]):
            kind = kinds[e.choose("kind", len(kinds))]
            try:
                if kind == "event":
                    side = e.choose("side", 2)
                    otype = FILE if size != "full" else (FILE, DIRECTORY)[e.choose("otype", 2)]
                    exists = [True, False, None][e.choose("exists", 2 if size == "tiny" else 3)]
                    if side == 0:
                        i = e.choose("name", len(names))
                        oid, path = loids[i], names[i]
                        if not lp:
                            path = ([None] + names)[e.choose("path", len(names) + 1)] if size != "tiny" else names[e.choose("path", len(names))]
                        prior = None
                        if lp:
                            j = e.choose("prior", len(names) + 1)
                            prior = None if j == 0 else names[j - 1]
                            if prior == oid:
                                prior = None
                    else:
                        oid = roids[e.choose("roid", len(roids))]
                        path = (names if size == "tiny" else [None] + names)[e.choose("path", len(names) + (0 if size == "tiny" else 1))]
                        prior = None
                    hist.append(("event", side, otype.value, oid, path, exists, prior))
                    if otype == DIRECTORY and path:
                        for cand in (st.lookup_oid(side, oid), st.lookup_oid(side, prior) if prior else None):
                            if cand and cand[side].path and path.startswith(cand[side].path + "/"):
                                raise _Skip()
                    st.update(side, otype, oid, path=path, hash=(b"h%d" % k) if otype == FILE else None, exists=exists, prior_oid=prior)
                elif kind == "assign":
                    ents = sorted(st.get_all(discarded=True), key=lambda x: x._hseq)
                    if not ents:
                        continue
                    en = ents[e.choose("ent", len(ents))]
                    side = e.choose("side", 2)
                    whats = ["clear", "changed0", "discard"] + ([] if size == "tiny" else ["changed+", "conflict", "path", "oid", "exists-trashed"])
                    what = whats[e.choose("what", len(whats))]
                    hist.append(("assign", en._hseq, side, what))
                    if what == "clear":
                        en[side].clear()
                    elif what == "changed0":
                        en[side].changed = 0
                    elif what == "changed+":
                        if en[side].oid is not None:
                            en[side].changed = 77.0
                    elif what == "discard":
                        en.ignore(IgnoreReason.DISCARDED)
                    elif what == "conflict":
                        en.ignore(IgnoreReason.CONFLICT)
                    elif what == "path":
                        if en[side].oid is not None and not (lp and side == 0):
                            np_ = names[e.choose("newpath", len(names))]
                            if en[side].otype == DIRECTORY and en[side].path and np_.startswith(en[side].path + "/"):
                                hist[-1] = hist[-1] + ("skipped: folder moved into itself",)      # outside the claim (no provider can emit it; the real code recurses without bound)
                                continue
                            en[side].path = np_
                    elif what == "oid":
                        pool = (loids if side == 0 else roids)
                        en[side].oid = ([None] + pool)[e.choose("newoid", len(pool) + 1)]
                    elif what == "exists-trashed":
                        en[side].exists = S.TRASHED
                elif kind == "split":
                    ents = sorted([x for x in st.get_all() if x[0].oid], key=lambda x: x._hseq)
                    if not ents:
                        continue
                    en = ents[e.choose("ent", len(ents))]
                    hist.append(("split", en._hseq))
                    st.split(en)
                elif kind == "merge":
                    ents = sorted(st.get_all(discarded=True), key=lambda x: x._hseq)
                    if len(ents) < 2:
                        continue
                    a = ents[e.choose("ent", len(ents))]
                    b = ents[e.choose("ent2", len(ents))]
                    side = e.choose("side", 2)
                    if a is b or not b[side].oid:
                        continue
                    hist.append(("merge", a._hseq, b._hseq, side))
                    a[side] = b[side]
                elif kind == "finished":
                    ents = sorted(st.get_all(discarded=True), key=lambda x: x._hseq)
                    if not ents:
                        continue
                    en = ents[e.choose("ent", len(ents))]
                    hist.append(("finished", en._hseq))
                    en[0].changed = 0
                    en[1].changed = 0
                    st.finished(en)
            except _Skip:
                hist[-1] = hist[-1] + ("skipped: folder moved into itself",)
                continue
            except AssertionError:
                hist[-1] = hist[-1] + ("rejected",)
            except RecursionError:
                return {"ok": False, "info": {"why": "RecursionError inside a state operation", "hist": hist}}
            why = invariants(st)
            if why:
                return {"ok": False, "info": {"why": why, "hist": hist}}
        return {"ok": True, "key": repr(hist), "nontrivial": True}
    return fn


class _Skip(Exception):
    pass


OPS = ["create_a", "create_b", "write_a", "delete_a", "rename_a_b", "mkdir_d", "rmdir_d", "move_a_d", "rendir_d_e", "mkdir_d_s", "create_d_a"]


def h_engine(params, env=None):
    """index invariants after every engine step of the C01 history family"""
    def fn():
        e = env or SymEnv()
        _lab.reset()
        lab = Lab(params["flavour"])
        if base_tree(lab, params["base"]) is None:
            return {"ok": False, "info": {"why": "base tree did not become quiet"}}
        hist = []
        first = params.get("first")
        steps = 0

        def chk(where):
            why = invariants(lab.cs.state)
            if why:
                return {"ok": False, "info": {"why": why, "hist": hist, "after": where}}
        for k in range(params["nops"]):
            if k == 0 and first is not None:
                side, op = first
            else:
                side = e.choose("side", 2)
                op = OPS[e.choose("op", len(OPS))]
            d = do_op(lab, side, op, b"v%d" % k)
            hist.append((side,) + tuple(d))
            for j in range(params["slots"]):
                s = e.choose("slot", 4)
                hist.append("s%d" % s)
                if s < 3:
                    lab.step(s)
                    steps += 1
                    r = chk("slot")
                    if r:
                        return r
        for i in range(40):
            for o in (0, 1, 2):
                lab.step(o)
                steps += 1
                r = chk("drain")
                if r:
                    return r
            if not lab.busy():
                break
        lab.stop_engine()
        return {"ok": True, "key": repr(hist), "nontrivial": steps > 0}
    return fn


def _mut(params, env=None):
    """sensitivity twin: a change flag no longer puts the entry into the pending set"""
    inner = h_state(params, env)

    def fn():
        orig = S.SyncState.updated

        def updated(self, ent, side, key, val):
            if key == "changed":
                self._dirtyset.add(ent)
                return
            return orig(self, ent, side, key, val)
        S.SyncState.updated = updated
        try:
            return inner()
        finally:
            S.SyncState.updated = orig
    return fn


HARNESSES = {"state": h_state, "state2": h_state2, "engine": h_engine, "state~changed-not-pending": _mut}


def _sig(harness, params, info, exc=None):
    import re
    why = (info or {}).get("why") or exc or ""
    hist = (info or {}).get("hist") or []
    last = None
    for h in reversed(hist):
        if isinstance(h, (list, tuple)):
            last = h[0] if harness.startswith("state") else h[1]
            break
    sd = {"harness": harness.split("~")[0], "why": re.sub(r"'[^']*'", "_", why)[:80], "last": last, "flavour": params.get("flavour", "path" if params.get("oid_is_path") else "oid")}
    if harness.startswith("state"):
        # the shape of the operation sequence (kinds only): what a recorded finding on raw state operations is identified by
        shape = []
        for h in hist:
            if isinstance(h, (list, tuple)) and h:
                if h[0] == "event":
                    shape.append("event:%s:%s" % (h[2], "exists" if h[5] else ("gone" if h[5] is False else "unknown")))
                elif h[0] == "assign":
                    shape.append("assign:%s" % (h[3],))
                else:
                    shape.append(str(h[0]))
        sd["shape"] = shape
    return sd


def replay(harness, params, model):
    r = _lab.replay_driver(HARNESSES[harness], params, model)
    if r.get("reproduced"):
        r["sig"] = _sig(harness, params, r.get("info"), r.get("symptom"))
    return r


def signature(harness, params, rec):
    return _sig(harness, params, rec.get("info"), rec.get("exc"))


def jobs(tier):
    q = tier == "quick"
    out = []
    out.append({"harness": "state", "params": {"oid_is_path": False, "K": 2}, "label": "state-ops/object-ids/2"})
    out.append({"harness": "state2", "params": {"local_path_ids": True, "K": 2, "size": "medium"}, "label": "from-synced-base/path+object-ids/2/medium"})
    out.append({"harness": "state2", "params": {"local_path_ids": True, "K": 3, "size": "tiny"}, "label": "from-synced-base/path+object-ids/3/tiny"})
    if not q:
        out.append({"harness": "state", "params": {"oid_is_path": True, "K": 2}, "label": "state-ops/path-ids/2"})
        for lp in (True, False):
            out.append({"harness": "state2", "params": {"local_path_ids": lp, "K": 2, "size": "full"}, "label": "from-synced-base/%s/2/full" % ("path+object-ids" if lp else "object-ids")})
        out.append({"harness": "state2", "params": {"local_path_ids": False, "K": 3, "size": "tiny"}, "label": "from-synced-base/object-ids/3/tiny"})
    for f, sl in ((("oid", 1), ("path", 1)) if q else (("oid", 2), ("path", 2), ("mixed", 2), ("oid-ci", 1), ("oid-filt", 1))):
        for side in (0, 1):
            for op in OPS:
                out.append({"harness": "engine", "params": {"flavour": f, "base": 2, "nops": 2, "slots": sl, "first": [side, op]},
                            "label": "engine/%s/%dslots/first=%d:%s" % (f, sl, side, op)})
    out.append({"harness": "state~changed-not-pending", "params": {"oid_is_path": False, "K": 2}, "label": "state~changed-not-pending", "role": "sens"})
    return out


def meta(tier):
    return {
        "explanation": "M2: sequences of state-level operations (raw event tuples for both id styles incl. prior ids, stale/duplicate events, direct field assignments, discard/conflict, "
                       "split, side-state move between entries) are enumerated by the solver on the real SyncState; after each operation every live entry must be found under its id and path, "
                       "no slot may lead to an entry that no longer carries it, one owner per id, pending set = entries with a change flag and an id. The same invariants are checked after "
                       "every engine step of all 2-operation histories of the C01 family.",
        "bounds": {"state operations": "2, and 2-3 from a synchronised base (thorough: up to 4 on a tiny pool) from {file event, folder event, assignment (6 kinds), split, merge} over 3 ids, 4 paths incl. None and a parent/child pair",
                   "engine": "C01 family: 2 operations, 1 (2) slots, base tree file + folder"},
        "symbolic": ["operation kind, side, id, path, exists, prior id, target entry, assignment kind", "user operations and schedule slots (engine part)"],
        "outside": ["a folder's new path strictly inside its old path (no provider can emit it; the real code recurses without bound on it)", "longer sequences"],
        "stubs": ["MockProvider as path-convention provider; virtual clock"],
        "assumptions": ["an operation refused by an assertion inside SyncState is a rejected call; the indexes must stay coherent afterwards"],
    }
