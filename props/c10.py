"""C10 transient provider faults: survive, report, retry, still converge; failing files are set aside and recovered"""
import io
from props import _lab
from props._lab import Lab, SymEnv, show, strip_conflicted, RN
from props._hist import History, Fail, result_fail, sig_from_rec, std_replay

PROP = "C10"
LEVEL = "other"
SELFTEST_PARTS = ("num",)
WALL_BUDGET = {"quick": 3600, "thorough": 14400}
OPS = ["create_b", "write_a", "delete_a", "rename_a_b", "mkdir_d", "create_d_a", "move_a_d"]
KINDS = ["CloudTemporaryError", "CloudDisconnectedError", "CloudTokenError", "CloudOutOfSpaceError"]
WANT = {"CloudTemporaryError": "temporary_error", "CloudDisconnectedError": "disconnected_error", "CloudOutOfSpaceError": "out_of_space_error", "CloudTokenError": None}
API = ("info_path", "info_oid", "create", "upload", "download", "rename", "delete", "mkdir", "listdir", "events", "hash_oid", "exists_oid", "exists_path")


class Faults:
    """raises the chosen exception kinds at the chosen indices of the engine's provider API calls"""

    def __init__(self, lab):
        self.lab = lab
        self.n = 0
        self.plan = {}        # call index -> kind name
        self.active = False
        self.fired = []
        self.depth = 0
        for side, p in enumerate(lab.p):
            for name in API:
                orig = getattr(p, name)
                if name in ("events", "listdir"):
                    def w(*a, _o=orig, _n=name, _s=side, _p=p, **k):
                        self.hit(_p, _s, _n)
                        yield from _o(*a, **k)
                else:
                    def w(*a, _o=orig, _n=name, _s=side, _p=p, **k):
                        self.hit(_p, _s, _n)
                        self.depth += 1
                        try:
                            return _o(*a, **k)
                        finally:
                            self.depth -= 1
                setattr(p, name, w)

    def hit(self, prov, side, name):
        if not self.active or self.lab.user_mode or self.depth:
            return
        self.n += 1
        kind = self.plan.get(self.n)
        if kind:
            import cloudsync.exceptions as ex
            self.fired.append((self.n, side, name, kind))
            if kind in ("CloudDisconnectedError", "CloudTokenError"):
                prov.disconnect()
            raise getattr(ex, kind)("injected fault at provider call %d" % self.n)


def run_step(lab, which):
    """one iteration of the real service loop of that manager (its exception handling is code under test)"""
    m = (lab.cs.emgrs[0], lab.cs.emgrs[1], lab.cs.smgr)[which]
    m.run(until=lambda: True, sleep=0)


def drain(lab, h, maxrounds=60, after_step=None):
    for i in range(maxrounds):
        for o in (0, 1, 2):
            try:
                run_step(lab, o)
                if after_step:
                    after_step()
            except BaseException as ex:
                if type(ex).__name__ in ("PathAbort", "Inconclusive", "Unsupported", "StepBudget"):
                    raise
                raise Fail("an exception escaped a service loop step", exc=type(ex).__name__, symptom="escaped")
        lab.pump_notifications()
        F = getattr(lab, "faults", None)
        was = F.active if F else False
        if F:
            F.active = False     # CloudSync.busy is polled by the application, not by a service loop: faults are switched off while polling
        try:
            busy = lab.busy()
        except Exception:
            busy = True
        finally:
            if F:
                F.active = was
        if not busy:
            return i + 1
    raise Fail("engine not quiet after %d fair rounds" % maxrounds, symptom="no-quiescence")


def _factory(params, env=None):
    def fn():
        e = env or SymEnv()
        _lab.reset()
        lab = Lab(params["flavour"])
        lab.user(lambda: (lab.p[0].create("/L/a", io.BytesIO(b"base-a")),))
        if lab.drain() is None:
            return {"ok": False, "info": {"why": "base tree did not become quiet"}, "sigdata": {"symptom": "base-not-quiet"}}
        F = Faults(lab)
        lab.faults = F
        h = History(lab, e)
        live = {b"base-a": "/a"}
        try:
            first = params.get("first")
            for k in range(params["nops"]):
                side, op = first if (k == 0 and first) else (e.choose("side", 2), OPS[e.choose("op", len(OPS))])
                before = None
                if op in ("write_a", "delete_a"):
                    i = lab.user(lambda: lab.p[side].info_path(lab.roots[side] + "/a"))
                    if i:
                        b = io.BytesIO()
                        lab.user(lambda: lab.p[side].download(i.oid, b))
                        before = b.getvalue()
                d = h.user(side, op, b"v%d" % k)
                if d[0] in ("create", "write"):
                    live[d[2]] = d[1]
                if d[0] in ("write", "delete") and before is not None:
                    live.pop(before, None)
            nf = params["faults"]
            last = 0
            for j in range(nf):
                at = last + 1 + e.choose("fault_at", params["maxat"])
                kind = KINDS[e.choose("fault_kind", len(KINDS))]
                F.plan[at] = kind
                last = at
            F.active = True
            lab.notifications.clear()
            second = {"done": False}

            def edit_while_retrying():
                # the user saves the same file again right after the fault hit, before the engine's retry
                if params.get("edit_after_fault") and F.fired and not second["done"]:
                    if first and not lab.p[first[0]].connected:
                        return           # the account is reachable for its user only once the client is connected again: try after a later step
                    if params.get("edit_after_fault") == "peer" and not (lab.p[0].connected and lab.p[1].connected):
                        return
                    second["done"] = True
                    was = F.active
                    F.active = False
                    try:
                        tgt = {"create_b": "write_b", "write_a": "write_a", "create_d_a": "write_d_a", "rename_a_b": "write_b", "move_a_d": "write_d_a"}.get(first[1] if first else None)
                        if tgt:
                            sd = first[0] if params.get("edit_after_fault") != "peer" else 1 - first[0]
                            if params.get("edit_after_fault") == "peer":
                                # the first side's own change is known to the engine (its event was delivered) before the peer edits its copy
                                run_step(lab, first[0])
                            i2 = lab.user(lambda: lab.p[sd].info_path(lab.roots[sd] + "/" + "/".join(tgt.split("_")[1:])))
                            before2 = None
                            if i2:
                                b2 = io.BytesIO()
                                lab.user(lambda: lab.p[sd].download(i2.oid, b2))
                                before2 = b2.getvalue()
                            d2 = h.user(sd, tgt, b"second-save")
                            if d2[0] == "write":
                                live[d2[2]] = d2[1]
                                if before2 is not None:
                                    live.pop(before2, None)      # the version held by the file the user overwrote (on the peer that is the first side's version only if it had been copied there already)
                            if params.get("edit_after_fault") == "peer":
                                # the sync manager retries before the peer's event manager has delivered that edit
                                for _ in range(2):
                                    run_step(lab, 2)
                    finally:
                        F.active = was
            drain(lab, h, after_step=edit_while_retrying)
            F.active = False
            if len(F.fired) < nf:
                return {"ok": True, "key": None, "nontrivial": False}      # the run has fewer provider calls than the chosen index
            h.hist.append(("faults", [tuple(f[1:]) for f in F.fired]))
            drain(lab, h)
            got = [n.ntype.value for n in lab.notifications]
            info = dict(faults=F.fired, notifications=got)
            for (_, side, name, kind) in F.fired:
                want = WANT[kind]
                if want and want not in got:
                    raise Fail("a %s raised by the provider was not reported to the application" % kind, at=name, side=side, symptom="not-notified", fault_kind=kind, fault_api=name, **info)
            tl, tr = lab.tree(0), lab.tree(1)
            info.update(local=show(tl), remote=show(tr))
            if strip_conflicted(tl) != strip_conflicted(tr):
                raise Fail("roots differ at quiescence after the faults stopped", symptom="diverged", **info)
            present = set(v for v in list(tl.values()) + list(tr.values()) if v is not None)
            lost = sorted(v.decode() for v in live if v not in present)
            if lost:
                raise Fail("user content lost after transient faults", lost=lost, symptom="version-lost", **info)
        except Fail as f:
            r = result_fail(h, f, params)
            r["sigdata"]["fault_kind"] = f.info.get("fault_kind")
            r["sigdata"]["fault_api"] = f.info.get("fault_api")
            return r
        finally:
            F.active = False
            lab.stop_engine()
        return {"ok": True, "key": repr(h.hist), "nontrivial": True}
    return fn


def _stuck_factory(params, env=None):
    """a file that keeps failing (locked / invalid name at the peer) is reported and set aside; healthy files still sync; it syncs once it stops failing"""
    def fn():
        e = env or SymEnv()
        _lab.reset()
        lab = Lab(params["flavour"])
        if lab.drain() is None:
            return {"ok": False, "info": {"why": "base tree did not become quiet"}, "sigdata": {"symptom": "base-not-quiet"}}
        h = History(lab, e)
        mode = ["locked", "bad-name"][e.choose("mode", 2)]
        src = e.choose("origin_side", 2)
        dst = 1 - src
        order = e.choose("order", 2)
        lift_after = e.choose("lift_after", 3)      # rounds before the permanent failure is lifted
        bad = "/bad"
        good = "/good"
        try:
            if mode == "locked":
                lab.p[dst]._locked_for_test.add(lab.roots[dst] + bad)
            else:
                lab.p[dst]._forbidden_chars = ["b"]
            names = [bad, good] if order == 0 else [good, bad]
            for n in names:
                lab.user(lambda: lab.p[src].create(lab.roots[src] + n, io.BytesIO(b"content-" + n.encode())))
            h.hist.append((src, "create", bad, mode))
            h.hist.append((src, "create", good))
            lab.notifications.clear()
            for i in range(4 + lift_after):
                for o in (0, 1, 2):
                    try:
                        run_step(lab, o)
                    except BaseException as ex:
                        if type(ex).__name__ in ("PathAbort", "Inconclusive", "Unsupported", "StepBudget"):
                            raise
                        raise Fail("an exception escaped a service loop step", exc=type(ex).__name__, symptom="escaped")
                lab.pump_notifications()
            got = [n.ntype.value for n in lab.notifications]
            t = lab.tree(dst)
            info = dict(mode=mode, notifications=got, peer=show(t))
            if t.get(good) != b"content-/good":
                raise Fail("a persistently failing file stopped a healthy file from synchronising", symptom="healthy-blocked", **info)
            want = "temporary_error" if mode == "locked" else "file_name_error"
            if want not in got:
                raise Fail("a persistently failing file was not reported with a notification of the matching kind", symptom="not-notified", fault_kind=mode, **info)
            if bad in t:
                raise Fail("the failing file appeared at the peer although the provider refuses it", symptom="harness", **info)
            # lift the failure
            if mode == "locked":
                lab.p[dst]._locked_for_test.clear()
            else:
                lab.p[dst]._forbidden_chars = []
                # an invalid name stops failing when the user renames it to a valid one
                i = lab.user(lambda: lab.p[src].info_path(lab.roots[src] + bad))
                lab.user(lambda: lab.p[src].rename(i.oid, lab.roots[src] + "/fine"))
                bad2 = "/fine"
            drain(lab, h)
            t = lab.tree(dst)
            name = bad if mode == "locked" else "/fine"
            if t.get(name) != b"content-/bad":
                raise Fail("the file was not synchronised after it stopped failing", symptom="not-recovered", peer_after=show(t), **info)
        except Fail as f:
            r = result_fail(h, f, params)
            r["sigdata"]["fault_kind"] = f.info.get("fault_kind") or mode
            return r
        finally:
            lab.stop_engine()
        return {"ok": True, "key": repr((mode, src, order, lift_after)), "nontrivial": True}
    return fn


def _mut(params, env=None):
    """sensitivity twin: the sync manager no longer notifies on temporary errors"""
    inner = _factory(params, env)

    def fn():
        NT = _lab.NT
        orig = NT.NotificationManager.notify_from_exception

        def nfe(self, source, e, path=None):
            import cloudsync.exceptions as ex
            if isinstance(e, ex.CloudTemporaryError) and not isinstance(e, ex.CloudOutOfSpaceError):
                return
            return orig(self, source, e, path)
        NT.NotificationManager.notify_from_exception = nfe
        try:
            return inner()
        finally:
            NT.NotificationManager.notify_from_exception = orig
    return fn


from props._cold import cold_factory  # noqa: E402
HARNESSES = {"cold-fault": cold_factory, "faults": _factory, "stuck": _stuck_factory, "faults~temporary-not-notified": _mut}


def replay(harness, params, model):
    return std_replay(HARNESSES[harness], harness, params, model)


def signature(harness, params, rec):
    sd = sig_from_rec(params, rec)
    info = rec.get("info") or {}
    if info.get("symptom"):
        sd["symptom"] = info["symptom"]
    elif isinstance(sd.get("symptom"), str) and sd["symptom"].startswith("engine not quiet"):
        sd["symptom"] = "no-quiescence"
    sd["fault_kind"] = info.get("fault_kind") or info.get("mode")
    sd["fault_api"] = info.get("fault_api")
    return sd


def jobs(tier):
    q = tier == "quick"
    out = []
    for f in (("oid", "path") if q else ("oid", "path", "mixed")):
        # first start over accounts that already hold content: one transient fault at any provider call of the first run (start-up walk included)
        out.append({"harness": "cold-fault", "params": {"flavour": f, "mode": "fault", "maxat": 45}, "label": "%s/cold-start/1-fault" % f})
        for side in (0, 1):
            for op in OPS:
                out.append({"harness": "faults", "params": {"flavour": f, "nops": 1, "faults": 1, "maxat": 30 if q else 40, "first": [side, op]},
                            "label": "%s/1-op/1-fault/first=%d:%s" % (f, side, op)})
                if not q:
                    out.append({"harness": "faults", "params": {"flavour": f, "nops": 1, "faults": 2, "maxat": 14, "first": [side, op]},
                                "label": "%s/1-op/2-faults/first=%d:%s" % (f, side, op)})
                if op in ("create_b", "write_a", "create_d_a"):
                    out.append({"harness": "faults", "params": {"flavour": f, "nops": 1, "faults": 1, "maxat": 30, "first": [side, op], "edit_after_fault": True},
                                "label": "%s/1-op/1-fault+edit-while-retrying/first=%d:%s" % (f, side, op)})
                if op == "write_a":
                    out.append({"harness": "faults", "params": {"flavour": f, "nops": 1, "faults": 1, "maxat": 30, "first": [side, op], "edit_after_fault": "peer"},
                                "label": "%s/1-op/1-fault+peer-edit-before-the-retry/first=%d:%s" % (f, side, op)})
                if f == "oid" or not q:
                    out.append({"harness": "faults", "params": {"flavour": f, "nops": 2, "faults": 1, "maxat": 24 if q else 40, "first": [side, op]},
                                "label": "%s/2-ops/1-fault/first=%d:%s" % (f, side, op)})
        if q and f == "oid":
            # two faults close together (the second may hit while the loop that met the first is still backing off)
            for side in (0, 1):
                out.append({"harness": "faults", "params": {"flavour": f, "nops": 1, "faults": 2, "maxat": 10, "first": [side, "create_b"]},
                            "label": "%s/1-op/2-faults/first=%d:create_b" % (f, side)})
        out.append({"harness": "stuck", "params": {"flavour": f}, "label": "%s/stuck-file" % f})
    out.append({"harness": "faults~temporary-not-notified", "params": {"flavour": "oid", "nops": 1, "faults": 1, "maxat": 12, "first": [0, "create_b"]},
                "label": "faults~temporary-not-notified", "role": "sens"})
    return out


def meta(tier):
    return {
        "explanation": "M2 with symbolic fault placement: a wrapper on every Provider method the engine calls raises at a solver-chosen call index (1..30, thorough: two faults) one of "
                       "{Temporary, Disconnected (+disconnect()), Token (+disconnect()), OutOfSpace}; every engine step runs through the real Runnable.run(until=one iteration) of the "
                       "manager concerned, notifications through the real NotificationManager.do. Oracles: nothing escapes a loop iteration; a notification of the matching kind reaches "
                       "the handler; after the faults stop the roots are equal and no user content is lost. Stuck file: a path locked / name refused at the peer - the healthy file "
                       "still arrives, the matching notification is delivered, and the file arrives after the failure is lifted at a solver-chosen later round.",
        "bounds": {"operations": OPS, "history": "1 operation; 2 operations on object-id providers (thorough: all flavours)", "faults": "1 at call index 1..30 (thorough: 1 at 1..40 and 2 with gaps 1..14)", "kinds": KINDS,
                   "stuck file": "locked or invalid-name, either origin side, either creation order, lifted after 4..6 rounds"},
        "symbolic": ["operation", "fault call indices", "fault kinds", "stuck-file mode/side/order/lift time"],
        "outside": ["faults raised while CloudSync.busy is polled by the application (not a service loop)", "more than two faults", "real sleeping/backoff timing (C18)"],
        "stubs": ["engine lab determinisation", "fault-injecting wrapper on the provider API"],
        "assumptions": ["expired-token conditions need no notification (the statement lists temporary, disconnected, out-of-space, invalid-name)"],
    }
