"""C12 root confinement: nothing outside the sync roots is synced or modified"""
import io
from props import _lab
from props._lab import Lab, SymEnv, show, strip_conflicted, CloudSync
from props._hist import History, Fail, result_fail, sig_from_rec, std_replay

PROP = "C12"
LEVEL = "other"
SELFTEST_PARTS = ("num",)
WALL_BUDGET = {"quick": 3600, "thorough": 14400}
# (kind, src, dst) relative to the ACCOUNT root; R = this side's sync root, X = its prefix sibling (root + 'x')
OPS = [
    ("create", "R/n", None), ("write", "R/a", None), ("delete", "R/a", None), ("mkdir", "R/m", None),
    ("create", "/other/q", None), ("write", "X/s", None), ("create", "X/n", None), ("delete", "/other/o", None), ("create", "/top", None),
    ("rename", "R/a", "/other/a"), ("rename", "/other/o", "R/o"), ("rename", "R/a", "X/a"), ("rename", "X/s", "R/s"),
    ("rendir", "R/d", "/other/d"), ("rendir", "/other/f", "R/f"),
    ("create", "R/priv/p", None), ("write", "R/priv/k", None),
    ("create-same", "/other/same", None),      # a file outside the root with exactly the content /a was synchronised with
]


def comps(p):
    return [c for c in p.split("/") if c]


def inside(root, p):
    r, q = comps(root), comps(p)
    return q[:len(r)] == r


def _factory(params, env=None):
    def fn():
        e = env or SymEnv()
        _lab.reset()
        roots = ("/L", "/R")
        variant = params["variant"]
        methods = {}
        if variant == "declining-translate":
            def translate(self, side, path):
                # the application declines everything under <root>/priv, in both directions
                src_root = self.roots[1 - side]
                rel = self.providers[1 - side].is_subpath(src_root, path)
                if rel and (rel == "/priv" or rel.startswith("/priv/")):
                    return None
                return CloudSync.translate(self, side, path)
            methods["translate"] = translate
        lab = Lab(params["flavour"], roots=roots, cs_methods=methods, make_roots=True)

        def setup():
            for side, rt in enumerate(roots):
                p = lab.p[side]
                p.mkdir(rt + "x")
                p.mkdir("/other")
                p.create(rt + "x/s", io.BytesIO(b"sibling-%d" % side))
                p.create("/other/o", io.BytesIO(b"other-%d" % side))
                p.mkdir("/other/f")
                p.create("/other/f/c", io.BytesIO(b"fc-%d" % side))
                p.mkdir(rt + "/priv")
                p.create(rt + "/priv/k", io.BytesIO(b"private-%d" % side))
                if p.case_sensitive:
                    # a sibling of the root whose name differs from the root's only by case: outside the root on a case-sensitive account
                    p.mkdir(rt.lower())
                    p.create(rt.lower() + "/secret", io.BytesIO(b"case-sibling-%d" % side))
            lab.p[0].create("/L/a", io.BytesIO(b"base-a"))
            lab.p[0].mkdir("/L/d")
            lab.p[0].create("/L/d/c", io.BytesIO(b"base-dc"))
        lab.user(setup)
        if variant == "root-by-id":
            lab.stop_engine()
            lab.cs_kwargs = {"root_oids": (lab.p[0].info_path("/L").oid, lab.p[1].info_path("/R").oid)}
            lab.start_engine()
        if lab.drain() is None:
            return {"ok": False, "info": {"why": "base tree did not become quiet"}, "sigdata": {"symptom": "base-not-quiet"}}

        def outside(side):
            # read straight from the mock account's object table (same content as walk('/')+download, much cheaper per engine step)
            out = {}
            for o in lab.p[side]._mock_fs.fs_objects():
                if o.exists and o.path and o.path != "/" and not inside(roots[side], o.path):
                    out[o.path] = o.contents if o.type == o.FILE else None
            return out

        class Outside:
            def before(self, h, which):
                self.snap = (outside(0), outside(1))
                self.n0 = len(lab.calls)

            def after(self, h, which):
                now = (outside(0), outside(1))
                for side in (0, 1):
                    if now[side] != self.snap[side]:
                        diff = sorted(set(now[side].items()) ^ set(self.snap[side].items()), key=repr)[:3]
                        return "engine modified something outside the sync root on side %d: %s" % (side, [d[0] for d in diff])
                for c in lab.calls[self.n0:]:
                    side, name, args = c[0], c[1], c[2]
                    paths = []
                    if name in ("create", "mkdir"):
                        paths = [args[0]]
                    elif name == "rename":
                        paths = [args[1]] + [a[1:] for a in args if isinstance(a, str) and a.startswith("@")]
                    elif name in ("delete", "upload"):
                        paths = [a[1:] for a in args if isinstance(a, str) and a.startswith("@")]
                    for pth in paths:
                        if pth != "None" and not inside(roots[side], pth):
                            return "engine-issued %s on side %d targets %s outside the root" % (name, side, pth)
                return None
        h = History(lab, e, [Outside()])
        declined_before = None
        if variant == "declining-translate":
            declined_before = ({k: v for k, v in lab.tree(0).items() if k.startswith("/priv")}, {k: v for k, v in lab.tree(1).items() if k.startswith("/priv")})
        try:
            first = params.get("first")
            touched_priv = [False, False]
            prefix = params.get("prefix") or ([first] if first else [])
            for k in range(params["nops"]):
                if k < len(prefix):
                    side, oi = prefix[k]
                else:
                    side = e.choose("side", 2)
                    sub = params.get("subset")
                    oi = sub[e.choose("op", len(sub))] if sub else e.choose("op", len(OPS))
                kind, src, dst = OPS[oi]
                rt = roots[side]

                def ab(p):
                    return None if p is None else p.replace("R/", rt + "/", 1).replace("X/", rt + "x/", 1) if p[0] in "RX" else p
                content = b"v%d" % k
                if kind == "create-same":
                    kind, content = "create", b"base-a"
                d = _account_op(lab, side, kind, ab(src), ab(dst), content)
                h.hist.append((side,) + d)
                if d[0] not in ("noop", "failed"):
                    h.real_ops += 1
                    if "/priv" in (src or ""):
                        touched_priv[side] = True
                h.slots(params["slots"])
            h.drain()
            tl, tr = lab.tree(0), lab.tree(1)
            info = dict(local=show(tl), remote=show(tr))
            for t in (tl, tr):
                for k_, v_ in t.items():
                    if isinstance(v_, bytes) and v_.startswith(b"case-sibling-"):
                        raise Fail("content from outside a root (a sibling whose name differs from the root's only by case) was copied into a root", path=k_, symptom="outside-copied-in", **info)
            if variant == "declining-translate":
                # declined paths are left alone on both sides: the engine changes nothing under <root>/priv on either side
                for side, t in ((0, tl), (1, tr)):
                    want = dict(declined_before[side])
                    for hh in h.hist:
                        if isinstance(hh, tuple) and hh[0] == side and len(hh) > 2 and isinstance(hh[2], str) and hh[2].startswith(roots[side] + "/priv"):
                            rel = hh[2][len(roots[side]):]
                            if hh[1] in ("create", "write"):
                                want[rel] = hh[3]
                    got = {k: v for k, v in t.items() if k.startswith("/priv")}
                    if got != want:
                        raise Fail("a path the application's translate declines was touched by the engine", side_=side, got=show(got), want=show(want), symptom="declined-touched", **info)
                pl = {k: v for k, v in tl.items() if not k.startswith("/priv")}
                pr = {k: v for k, v in tr.items() if not k.startswith("/priv")}
            else:
                pl, pr = tl, tr
            if strip_conflicted(pl) != strip_conflicted(pr):
                raise Fail("sync roots differ at quiescence (move-out must delete at the peer, move-in must create, nothing else may appear)", symptom="diverged", **info)
            for name in ("sibling-0", "sibling-1", "other-0", "other-1", "fc-0", "fc-1"):
                pass
            # nothing that lives outside a root may have been copied into the peer's root
            for side in (0, 1):
                out_vals = set(v for k, v in lab.account(side).items() if not inside(roots[side], k) and v is not None)
                peer = tr if side == 0 else tl
                mine = tl if side == 0 else tr
                for k2, v in peer.items():
                    if v in out_vals and v not in mine.values():
                        raise Fail("content that exists only outside the root on one side appeared inside the peer's root", path=k2, symptom="outside-copied", **info)
        except Fail as f:
            return result_fail(h, f, params, {"variant": variant})
        finally:
            lab.stop_engine()
        return {"ok": True, "key": repr(h.hist), "nontrivial": h.real_ops > 0}
    return fn


def _account_op(lab, side, kind, src, dst, content):
    """user operation with absolute account paths"""
    saved = lab.roots
    lab.roots = ("", "")
    try:
        from props._lab import apply_op
        return tuple(apply_op(lab, side, kind, src, dst, content))
    finally:
        lab.roots = saved


def _mut(params, env=None):
    """sensitivity twin: is_subpath loses its component-boundary test"""
    inner = _factory(params, env)

    def fn():
        PV = _lab.PV
        orig = PV.Provider.is_subpath

        def is_subpath(self, folder, target, strict=False):
            if not folder or not target:
                return False
            ff = self.normalize_path_separators(folder)
            tf = self.normalize_path_separators(target)
            fc, tc = (ff, tf) if self.case_sensitive else (ff.lower(), tf.lower())
            if fc == tc:
                return False if strict else self.sep
            if fc == self.sep and tc[:1] == self.sep:
                return tf
            if len(tf) > len(ff) and tc.startswith(fc):
                return tf[len(ff):] if tf[len(ff)] == self.sep else self.sep + tf.rsplit(self.sep, 1)[1]
            return False
        PV.Provider.is_subpath = is_subpath
        try:
            return inner()
        finally:
            PV.Provider.is_subpath = orig
    return fn


HARNESSES = {"confine": _factory, "confine~no-boundary": _mut}


def _norm_sym(sym):
    import re
    sym = sym or ""
    if sym.startswith("engine not quiet"):
        return "no-quiescence"
    return re.sub(r"side \d.*", "", sym).strip()


def replay(harness, params, model):
    r = std_replay(HARNESSES[harness], harness, params, model)
    if r.get("reproduced") and isinstance(r.get("sig"), dict):
        r["sig"]["symptom"] = _norm_sym(r["sig"].get("symptom"))
        r["sig"]["variant"] = params["variant"]
    return r


def signature(harness, params, rec):
    sd = sig_from_rec(params, rec)
    info = rec.get("info") or {}
    import re
    sym = info.get("symptom") or info.get("why") or rec.get("exc") or ""
    if sym.startswith("engine not quiet"):
        sym = "no-quiescence"
    sym = re.sub(r"side \d.*", "", sym).strip()
    sd["symptom"] = sym
    sd["variant"] = params["variant"]
    return sd


def jobs(tier):
    q = tier == "quick"
    out = []
    combos = [("oid", "by-path"), ("oid-filt", "by-path"), ("path", "by-path"), ("oid", "root-by-id"), ("oid", "declining-translate")]
    if not q:
        combos += [("oid-filt", "root-by-id"), ("path", "declining-translate"), ("mixed", "by-path"), ("oid-ci", "by-path")]
    for f, v in combos:
        for side in (0, 1):
            for oi in range(len(OPS)):
                out.append({"harness": "confine", "params": {"flavour": f, "variant": v, "nops": 1 if q else 2, "slots": 2 if q else 1, "first": [side, oi]},
                            "label": "%s/%s/first=%d:%s" % (f, v, side, "-".join(str(x) for x in OPS[oi] if x))})
    if q:
        # two-operation families around the boundary: something moves out while the peer (or the same side) touches it
        for f in ("oid",):
            for side in (0, 1):
                for oi in (9, 11, 13):
                    out.append({"harness": "confine", "params": {"flavour": f, "variant": "by-path", "nops": 2, "slots": 1, "first": [side, oi]},
                                "label": "%s/by-path/2-ops/first=%d:%s" % (f, side, "-".join(str(x) for x in OPS[oi] if x))})
    # a file is deleted inside the root and a byte-identical one appears outside it before the next sync step (a delete must not be re-read as a move out), then anything
    for f, sides in (("path", (0, 1)), ("mixed", (0,))):
        for side in sides:
            out.append({"harness": "confine", "params": {"flavour": f, "variant": "by-path", "nops": 3, "slots": 1, "prefix": [[side, 2], [side, 17]]},
                        "label": "%s/by-path/3-ops/prefix=%d:delete-a+same-content-file-outside" % (f, side)})
    # accounts that differ in case sensitivity: membership in a root is decided by the rules of the account the path lives in
    for f in ("oid-cics", "oid-csci"):
        for side in (0, 1):
            for oi in ((0, 3) if q else range(len(OPS))):
                out.append({"harness": "confine", "params": {"flavour": f, "variant": "by-path", "nops": 1, "slots": 2, "first": [side, oi]},
                            "label": "%s/by-path/first=%d:%s" % (f, side, "-".join(str(x) for x in OPS[oi] if x))})
    for f in (("oid",) if q else ("oid", "oid-filt")):
        for side in (0, 1):
            for oi in (9, 11):
                # move-out racing with an edit or a delete of the peer copy, 2 slots after each operation (the move-out event may arrive late)
                out.append({"harness": "confine", "params": {"flavour": f, "variant": "by-path", "nops": 2, "slots": 2, "first": [side, oi], "subset": [1, 2]},
                            "label": "%s/by-path/move-out-race/first=%d:%s" % (f, side, "-".join(str(x) for x in OPS[oi] if x))})
    out.append({"harness": "confine~no-boundary", "params": {"flavour": "oid", "variant": "by-path", "nops": 1, "slots": 1, "first": [0, 6]},
                "label": "confine~no-boundary", "role": "sens"})
    return out


def meta(tier):
    return {
        "explanation": "M2: both accounts hold the sync root, a prefix sibling (<root>x), /other with a file and a folder, and a file at the account root; histories mix operations inside the "
                       "root, outside it, in the prefix sibling, and moves across the boundary in both directions (files and folders). Variants: roots by path, roots by id, event filtering "
                       "on, and an application translate that declines one sub-folder. Oracles after EVERY engine step: the snapshot of everything outside both roots is unchanged and every "
                       "engine-issued create/mkdir/rename/delete/upload targets a path inside that side's root; at quiescence the roots are equal (move-out => deleted at the peer, move-in => "
                       "created), content living only outside a root never shows up inside the peer's root, declined paths are not copied.",
        "bounds": {"operations": [list(o) for o in OPS], "history": "1 operation with 2 slots (thorough: 2 operations, 1 slot)", "variants": "by-path x {oid, oid-filt, path}, root-by-id, declining-translate (thorough: more flavours)"},
        "symbolic": ["operation, side, schedule slots"],
        "outside": ["nested syncs sharing an account", "roots that are prefixes of each other on the same provider", "longer histories"],
        "stubs": ["engine lab determinisation", "CloudSync.translate overridden in a subclass for the declining variant (the documented override point)"],
        "assumptions": [],
    }
