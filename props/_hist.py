"""shared driver for engine-lab history harnesses: user operations, schedule slots, monitored engine steps, drain"""
from props import _lab
from props._lab import do_op


class Fail(Exception):
    def __init__(self, why, **info):
        Exception.__init__(self, why)
        self.why = why
        self.info = info


class History:
    def __init__(self, lab, env, monitors=()):
        self.lab = lab
        self.e = env
        self.hist = []
        self.monitors = list(monitors)
        self.steps = 0
        self.real_ops = 0

    def user(self, side, op, content):
        d = do_op(self.lab, side, op, content)
        self.hist.append((side,) + tuple(d))
        if d[0] not in ("noop", "failed"):
            self.real_ops += 1
        return d

    def step(self, which, where="slot"):
        for m in self.monitors:
            if hasattr(m, "before"):
                m.before(self, which)
        self.lab.step(which)
        self.steps += 1
        for m in self.monitors:
            if hasattr(m, "after"):
                why = m.after(self, which)
                if why:
                    raise Fail(why, after=where)

    mode = None        # "round": a slot is either nothing or one fair round of the three engine steps (coarser, 2 options instead of 4)

    def slots(self, n):
        if self.mode == "round":
            for j in range(n):
                s = self.e.choose("round", 2)
                self.hist.append("r%d" % s)
                if s:
                    for o in (0, 1, 2):
                        self.step(o)
            return
        for j in range(n):
            s = self.e.choose("slot", 4)
            self.hist.append("s%d" % s)
            if s < 3:
                self.step(s)

    def gap(self, spec):
        """what happens between two user operations: n -> n fine slots; "Q" -> the engine runs until quiet;
        ("Q", n) -> solver's choice between running until quiet and n fine slots"""
        if isinstance(spec, int):
            saved, self.mode = self.mode, None
            try:
                self.slots(spec)
            finally:
                self.mode = saved
        elif spec == "Q":
            self.hist.append("Q")
            self.drain()
        elif spec[0] == "S":
            # guided schedules: the solver picks one of a few step sequences; o = intake of the side where the user works, p = intake of the
            # peer, s = one sync step, l/r = local/remote intake, Q = until quiet ("os" = the change is mirrored but the peer's echo is not read yet)
            seq = spec[1][self.e.choose("sched", len(spec[1]))]
            self.hist.append("g:" + seq)
            o = getattr(self, "origin", 0)
            for ch in seq:
                if ch == "Q":
                    self.drain()
                else:
                    self.step({"o": o, "p": 1 - o, "l": 0, "r": 1, "s": 2}[ch])
        else:
            if self.e.choose("gap", 2) == 0:
                self.hist.append("Q")
                self.drain()
            else:
                self.gap(spec[1])

    def drain(self, maxrounds=40):
        for i in range(maxrounds):
            for o in (0, 1, 2):
                self.step(o, "drain")
            if not self.lab.busy():
                return i + 1
        raise Fail("engine not quiet after %d fair rounds" % maxrounds, symptom="no-quiescence")

    def norm(self):
        """history without schedule and contents (what a known finding is identified by)"""
        out = []
        for h in self.hist:
            if isinstance(h, tuple) and h[1] not in ("noop",):
                out.append([h[0]] + [x for x in h[1:] if isinstance(x, str)])
        return out


def norm_hist(hist):
    out = []
    for h in hist or []:
        if isinstance(h, (tuple, list)) and len(h) > 1 and h[1] not in ("noop",):
            out.append([h[0]] + [x for x in h[1:] if isinstance(x, str)])
    return out


def result_fail(h, f, params, extra=None):
    info = {"why": f.why, "hist": h.hist}
    info.update({k: v for k, v in f.info.items()})
    sd = {"flavour": params.get("flavour"), "ops": h.norm(), "symptom": f.info.get("symptom") or f.why}
    if extra:
        sd.update(extra)
    return {"ok": False, "info": info, "sigdata": sd}


def sig_from_rec(params, rec, extra=None):
    info = rec.get("info") or {}
    if rec.get("status") == "exc":
        return {"flavour": params.get("flavour"), "symptom": rec.get("exc")}
    sd = {"flavour": params.get("flavour"), "ops": norm_hist([tuple(x) if isinstance(x, list) else x for x in info.get("hist", [])]),
          "symptom": info.get("symptom") or info.get("why")}
    if extra:
        sd.update(extra)
    return sd


def std_replay(factory, harness, params, model):
    r = _lab.replay_driver(factory, params, model)
    if r.get("reproduced"):
        r["sig"] = r.get("sigdata") or {"flavour": params.get("flavour"), "symptom": r.get("symptom"), "at": r.get("at")}
    return r
