"""C13 path algebra: the real Provider path helpers and CloudSync.translate on bounded symbolic strings."""
import types
from props._m1 import quiet_repo, run_law, replay_law, model_dict

PROP = "C13"
LEVEL = "other"
SELFTEST_PARTS = ("str", "num")
WALL_BUDGET = {"quick": 3600, "thorough": 14400}

ALPH = "/\\aAb. :éÉ"
CONFIGS = {"cs": (True, False), "ci": (False, False), "win-cs": (True, True), "win-ci": (False, True)}


def _provider_class(case_sensitive, win_paths, sep, alt):
    import cloudsync.provider as PV
    ns = {k: (lambda self, *a, **k: None) for k in PV.Provider.__abstractmethods__}
    ns.update(sep=sep, alt_sep=alt, case_sensitive=case_sensitive, win_paths=win_paths, name="P")
    return type("P", (PV.Provider,), ns)


def providers(symbolic):
    """one provider object per configuration; symbolic => separators are literal SStr so that the
    helpers' own str operations dispatch to the proxies"""
    if symbolic:
        from symx.core import SStr
        sep, alt = SStr.of("/"), SStr.of("\\")
    else:
        sep, alt = "/", "\\"
    return {k: _provider_class(cs, win, sep, alt)() for k, (cs, win) in CONFIGS.items()}


# ---------------------------------------------------------------------------------------
# reference notions used by the oracles (independent of the helpers)
# ---------------------------------------------------------------------------------------
def is_sep(ch):
    return ch == "/" or ch == "\\"


def comps(p, fold):
    """component list of a path: split on either separator, empties dropped, case folded if asked"""
    out, cur = [], ""
    for ch in p:
        if is_sep(ch):
            if cur:
                out.append(cur)
            cur = ""
        else:
            cur = cur + (ch.lower() if fold else ch)
    if cur:
        out.append(cur)
    return out


def list_prefix(a, b):
    if len(a) > len(b):
        return False
    for x, y in zip(a, b):
        if x != y:
            return False
    return True


def has_double_sep(p):
    prev = False
    for ch in p:
        s = is_sep(ch)
        if s and prev:
            return True
        prev = s
    return False


# ---------------------------------------------------------------------------------------
# laws.  first argument: dict of providers; cfg names which configuration
# ---------------------------------------------------------------------------------------
def L1_idempotent(P, cfg, p):
    pr = P[cfg]
    a = pr.normalize_path_separators(p)
    if pr.normalize_path_separators(a) != a:
        return False, "normalize_path_separators not idempotent"
    n = pr.normalize_path(p)
    if pr.normalize_path(n) != n:
        return False, "normalize_path not idempotent"
    d = pr.normalize_path(p, True)
    if pr.normalize_path(d, True) != d:
        return False, "normalize_path(for_display) not idempotent"
    return True


def L2_split_join(P, cfg, p):
    pr = P[cfg]
    d, b = pr.split(p)
    j = pr.join(d, b)
    if not pr.paths_match(j, p):
        return False, "join(*split(p)) does not match p"
    if pr.dirname(p) != d or pr.basename(p) != b:
        return False, "dirname/basename disagree with split"
    return True


def L3_join_subpath(P, cfg, folder, rel):
    pr = P[cfg]
    if not folder or not is_sep(folder[0]) or not rel:
        return None
    if pr.win_paths and ":" in rel:
        return None       # 'x:...' is a drive-qualified (absolute) path under the drive-letter convention, not a relative part
    j = pr.join(folder, rel)
    r = pr.is_subpath(folder, j)
    if not r:
        return False, "join(folder, rel) not reported inside folder"
    if not pr.paths_match(pr.join(folder, r), j):
        return False, "relative part returned by is_subpath does not rebuild the path"
    sepfree = True
    for ch in rel:
        if is_sep(ch):
            sepfree = False
    if sepfree and r != "/" + rel:
        return False, "relative part differs from sep + rel"
    if not pr.is_subpath(folder, j, True) and pr.normalize_path_separators(j) != pr.normalize_path_separators(folder):
        return False, "strict is_subpath false for a proper descendant"
    return True


def L4_prefix_sibling(P, cfg, f, g, x):
    pr = P[cfg]
    # f, g: the same folder name up to case; x: a non-empty suffix that does not start a new component
    if not f or is_sep(f[-1]) or not x or is_sep(x[0]):
        return None
    if len(f) != len(g) or f.lower() != g.lower():
        return None
    r = pr.is_subpath(f, g + x)
    if r is not False:
        return False, "prefix sibling reported as inside"
    return True


def L5_replace(P, cfg, p, a, b):
    pr = P[cfg]
    rel = pr.is_subpath(a, p)
    try:
        res = pr.replace_path(p, a, b)
    except ValueError:
        if rel:
            return False, "ValueError although p is inside a"
        return True
    if not rel:
        return False, "no ValueError although p is not inside a"
    nb = pr.normalize_path_separators(b)
    want = nb + (rel if rel != "/" else "")
    if res != want:
        return False, "result is not normalised(b) + relative part"
    if nb and nb != "/":
        back = pr.is_subpath(b, res)
        if not back or not pr.paths_match(back, rel):
            return False, "relative part not preserved under the new prefix"
    return True


def L6_match_pair(P, cfg, p, q):
    pr = P[cfg]
    if not pr.paths_match(p, p):
        return False, "paths_match not reflexive"
    m = pr.paths_match(p, q)
    if m != pr.paths_match(q, p):
        return False, "paths_match not symmetric"
    if m != (pr.normalize_path(p) == pr.normalize_path(q)):
        return False, "paths_match disagrees with normalize_path"
    if len(p) == len(q) and p != q and p.lower() == q.lower():
        # differ only in case
        if m != (not pr.case_sensitive):
            return False, "case-only difference handled against the provider's case sensitivity"
    if pr.paths_match(None, None) is not True or pr.paths_match(p, None) or pr.paths_match(None, q):
        return False, "None handling"
    return True


def L6_transitive(P, cfg, p, q, r):
    pr = P[cfg]
    if pr.paths_match(p, q) and pr.paths_match(q, r):
        if not pr.paths_match(p, r):
            return False, "paths_match not transitive"
        return True
    return None


def L6_display(P, cfg, p):
    """for_display keeps the leaf's case, folds the rest, and folds to the plain normal form"""
    pr = P[cfg]
    if pr.case_sensitive:
        if pr.normalize_path(p, True) != pr.normalize_path(p):
            return False, "for_display changes a case-sensitive normal form"
        return True
    ref = P["win-cs" if pr.win_paths else "cs"]          # same convention, case kept
    keep = ref.normalize_path(p)
    d = pr.normalize_path(p, True)
    if pr.basename(d) != pr.basename(keep):
        return False, "for_display does not keep the leaf's case"
    if pr.dirname(d) != pr.dirname(keep).lower():
        return False, "for_display does not fold the directory part"
    if d.lower() != pr.normalize_path(p):
        return False, "for_display normal form does not fold to the plain normal form"
    if not pr.paths_match(p, keep, True):
        return False, "paths_match(for_display) rejects the same path"
    return True


def _cs(P, c0, c1, r0, r1):
    from cloudsync.cs import CloudSync
    ns = types.SimpleNamespace(roots=(r0, r1), providers=(P[c0], P[c1]))
    return lambda side, path: CloudSync.translate(ns, side, path)


def L7_translate_inside(P, cfg, r0, r1, rel):
    c0, c1 = cfg.split("+")
    if not r0 or not r1 or not is_sep(r0[0]) or not is_sep(r1[0]):
        return None
    if (P[c0].win_paths or P[c1].win_paths) and ":" in rel:
        return None       # drive-qualified, see L3
    tr = _cs(P, c0, c1, r0, r1)
    path = P[c0].join(r0, rel)               # a path inside root 0, as the provider itself builds it
    t = tr(1, path)
    if t is None:
        return False, "path inside the root has no translation"
    if not P[c1].is_subpath(r1, t):
        return False, "translation lands outside the other root"
    back = tr(0, t)
    if back is None:
        return False, "translation has no way back"
    if not P[c0].paths_match(back, path):
        return False, "there-and-back is not equivalent to the original"
    return True


def L7_translate_outside(P, cfg, r0, r1, p):
    c0, c1 = cfg.split("+")
    if not r0 or not r1 or not is_sep(r0[0]) or not is_sep(r1[0]) or not p:
        return None
    fold = not P[c0].case_sensitive
    if list_prefix(comps(r0, fold), comps(p, fold)):
        return None                           # p is inside root 0 by the reference notion
    if _cs(P, c0, c1, r0, r1)(1, p) is not None:
        return False, "path outside the root translated"
    return True


LAWS = {
    "L1": (L1_idempotent, ["p"]),
    "L2": (L2_split_join, ["p"]),
    "L3": (L3_join_subpath, ["folder", "rel"]),
    "L4": (L4_prefix_sibling, ["f", "g", "x"]),
    "L5": (L5_replace, ["p", "a", "b"]),
    "L6pair": (L6_match_pair, ["p", "q"]),
    "L6trans": (L6_transitive, ["p", "q", "r"]),
    "L6disp": (L6_display, ["p"]),
    "L7in": (L7_translate_inside, ["r0", "r1", "rel"]),
    "L7out": (L7_translate_outside, ["r0", "r1", "p"]),
}

# sensitivity twins: the same laws over a deliberately broken helper (applied in the harness and
# in the replay alike); each must yield a replayable counterexample
def _mutate(name):
    """install a broken helper; returns the undo function"""
    import cloudsync.provider as PV
    saved = {k: PV.Provider.__dict__[k] for k in ("is_subpath", "normalize_path")}

    def undo():
        for k, v in saved.items():
            setattr(PV.Provider, k, v)
    _mutate_apply(name, PV)
    return undo


def _mutate_apply(name, PV):
    if name == "subpath-no-sep-check":
        def is_subpath(self, folder, target, strict=False):
            if not folder or not target:
                return False
            ff = self.normalize_path_separators(folder)
            tf = self.normalize_path_separators(target)
            fc, tc = (ff, tf) if self.case_sensitive else (ff.lower(), tf.lower())
            if fc == tc:
                return False if strict else self.sep
            if len(tf) > len(ff) and tc.startswith(fc):
                return tf[len(ff):]
            return False
        PV.Provider.is_subpath = is_subpath
    elif name == "normalize-no-lower":
        def normalize_path(self, path, for_display=False):
            path = self.normalize_path_separators(path)
            return self.join(*PV.re.split("[%s]+" % PV.re.escape(self.sep), path))
        PV.Provider.normalize_path = normalize_path


def _harness(params):
    quiet_repo()
    import cloudsync.provider as PV
    from symx.core import SStr, FakeRe
    PV.re = FakeRe
    SStr.LOWER = {ord(c): ord(c.lower()) for c in ALPH if c.lower() != c}
    P = providers(True)
    law, names = LAWS[params["law"]]
    lens = params["lens"]
    alph = params.get("alph", ALPH)

    def fn():
        undo = _mutate(params["mutant"]) if params.get("mutant") else None
        try:
            args = [SStr.sym(n, lens[i], alph) for i, n in enumerate(names)]
            return run_law(law, [P, params["cfg"]] + args)
        finally:
            if undo:
                undo()
    return fn


HARNESSES = {"law": _harness}


def replay(harness, params, model):
    quiet_repo()
    if params.get("mutant"):
        _mutate(params["mutant"])
    P = providers(False)
    law, names = LAWS[params["law"]]
    m = model_dict(model)
    args = [m[n] for n in names]
    r = replay_law(law, [P, params["cfg"]] + args)
    if r.get("reproduced"):
        cs, win = CONFIGS[params["cfg"].split("+")[0]]
        r["sig"] = {"law": params["law"], "symptom": r["symptom"], "at": r["at"], "win_paths": win}
    return r


def signature(harness, params, rec):
    info = rec.get("info") or {}
    cs, win = CONFIGS[params["cfg"].split("+")[0]]
    return {"law": params["law"], "symptom": info.get("exc") or "law-false", "at": info.get("at") or info.get("why"),
            "win_paths": win}


def jobs(tier):
    q = tier == "quick"
    out = []

    def add(law, cfg, lens, **kw):
        p = {"law": law, "cfg": cfg, "lens": lens}
        p.update(kw.pop("params", {}))
        out.append(dict({"harness": "law", "params": p, "label": "%s/%s%s" % (law, cfg, kw.pop("suffix", ""))}, **kw))
    for cfg in CONFIGS:
        add("L1", cfg, [5 if q else 7])
        add("L2", cfg, [5 if q else 7])
        add("L6disp", cfg, [5 if q else 7])
        add("L3", cfg, [3, 3] if q else [5, 4])
        add("L4", cfg, [3, 3, 2] if q else [4, 4, 3])
        add("L5", cfg, [4, 3, 2] if q else [5, 4, 3])
        add("L6pair", cfg, [4, 4] if q else [5, 5])
        add("L6trans", cfg, [3, 3, 3] if q else [4, 4, 4])
    for cfg in (["cs+ci", "ci+cs", "cs+cs"] if q else ["cs+ci", "ci+cs", "cs+cs", "ci+ci", "win-ci+cs", "cs+win-cs"]):
        add("L7in", cfg, [3, 2, 3] if q else [4, 3, 4])
        add("L7out", cfg, [2, 2, 3] if q else [4, 2, 5])
    # twins
    add("L4", "cs", [2, 2, 2], params={"mutant": "subpath-no-sep-check"}, role="sens", suffix="~subpath-no-sep-check")
    add("L6pair", "ci", [2, 2], params={"mutant": "normalize-no-lower"}, role="sens", suffix="~normalize-no-lower")
    for j in out:
        j["smt_dump"] = 0
    return out


def meta(tier):
    q = tier == "quick"
    return {
        "explanation": "M1 through-flow bounded symbolic execution: the real Provider.normalize_path_separators/join/split/"
                       "dirname/basename/normalize_path/is_subpath/replace_path/paths_match and CloudSync.translate run on "
                       "strings whose characters are z3 integer terms; every character comparison they make is decided by z3, "
                       "each law is checked on every path; counter-models are replayed on plain str in a fresh interpreter.",
        "bounds": {"alphabet": ALPH, "string_lengths": "quick: single 5, pairs 4/4, triples 3/3/3; thorough: single 7, pairs 5/5, triples 4/4/4 (per-law lens in jobs)",
                   "configurations": list(CONFIGS), "translate_pairs": "see jobs"},
        "symbolic": ["every path argument: length forks 0..N, each character an Int over the alphabet"],
        "outside": ["strings longer than the bounds", "characters outside the alphabet, in particular code points whose lower() changes length (U+0130)",
                    "roots or paths with doubled separators are not required to translate (L7out is one-directional)"],
        "stubs": ["re.split/re.escape for the single pattern shape '[c]+' (differentially tested against re)",
                  "str.lower() by table over the alphabet (differentially tested)", "logging disabled, debug_sig constant"],
        "assumptions": ["Python str semantics of the modelled methods equal the proxies' (self-validation on all strings <= 2/3 chars over a 5-letter alphabet)",
                        "z3 is sound"],
    }
