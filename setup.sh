#!/bin/bash
# Idempotent, offline: overlay venv = /venv's packages + z3-solver from the local wheelhouse.
set -e
cd "$(dirname "$0")"
V=.venv
if [ ! -x $V/bin/python ] || ! $V/bin/python -c "import z3, msgpack" 2>/dev/null; then
  rm -rf $V
  /venv/bin/python -m venv $V
  SP=$($V/bin/python -c "import sysconfig; print(sysconfig.get_paths()['purelib'])")
  echo "import site; site.addsitedir('/venv/lib/python3.12/site-packages')" > $SP/_overlay.pth
  PIP_NO_INDEX=1 $V/bin/python -m pip install -q --no-index --find-links /opt/veriftools/wheels z3-solver jsonschema >/dev/null
fi
$V/bin/python -c "import z3, msgpack; print('setup ok: z3', z3.get_version_string())"
