"""worker: one independently started interpreter exploring decision-prefix subtrees.

protocol: JSON lines on stdin/stdout.
  request : {"harness": name, "params": {...}, "prefix": [[d, tag], ...], "max_paths": n, "max_seconds": t,
             "profile": bool}
  response: {"counts": {status: n}, "fails": [...], "samples": [...], "keys": [...], "rest": [prefix, ...],
             "nq": n, "tq": s, "paths": n, "funcs": [...], "claims": n}
"""
import sys
import os
import json
import hashlib
import importlib
import time

sys.path.insert(0, os.path.dirname(os.path.dirname(os.path.abspath(__file__))))
REPO = os.environ.get("VERIF_REPO", "/repo")
sys.path.insert(0, REPO)
sys.dont_write_bytecode = True


def h64(s):
    return int.from_bytes(hashlib.blake2b(s.encode(), digest_size=8).digest(), "big") >> 1


def main():
    modname = sys.argv[1]
    out = sys.stdout
    from vf import tmpclean
    tmpclean.install()
    cov = None
    if os.environ.get("VERIF_COV"):
        # blind-spot analysis (development aid, not part of any verdict): line coverage of the code under test
        import coverage
        cov = coverage.Coverage(data_file=os.path.join(os.environ["VERIF_COV"], "cov"), data_suffix=True, branch=True,
                                include=[os.path.join(os.environ.get("VERIF_REPO") or "/repo", "cloudsync", "*")])
        cov.start()
    sys.stdout = sys.stderr       # anything the code under test prints must not corrupt the protocol
    mod = importlib.import_module(modname)
    from symx import core
    CTX = core.CTX
    fns = {}
    out.write(json.dumps({"ready": True}) + "\n")
    out.flush()
    for line in sys.stdin:
        req = json.loads(line)
        if req.get("quit"):
            break
        hkey = (req["harness"], json.dumps(req["params"], sort_keys=True))
        if hkey not in fns:
            fns[hkey] = mod.HARNESSES[req["harness"]](dict(req["params"]))
        fn = fns[hkey]
        CTX.nq = 0
        CTX.tq = 0.0
        counts = {}
        fails = []
        nsig = {}
        samples = []
        keys = set()
        trivial = 0
        rest = []
        paths = 0
        claims = 0
        funcs = None
        dump = None
        if req.get("smt_dump"):
            CTX.smt_dump = dump = []
        else:
            CTX.smt_dump = None
        prof_funcs = set()
        if req.get("profile"):
            def prof(frame, event, arg):
                if event == "call":
                    fnm = frame.f_code.co_filename
                    if fnm.startswith(REPO + "/cloudsync") and "/tests/" not in fnm:
                        prof_funcs.add("%s:%s" % (fnm[len(REPO) + 1:], frame.f_code.co_qualname))
            sys.setprofile(prof)
        t0 = time.time()
        try:
            for kind, x in core.explore(fn, root=req["prefix"], max_paths=req.get("max_paths"),
                                        max_seconds=req.get("max_seconds")):
                if kind == "rest":
                    rest = [list(map(list, p)) for p in x]
                    continue
                paths += 1
                claims += CTX.claims
                st = x["status"]
                counts[st] = counts.get(st, 0) + 1
                if st == "ok":
                    k = x.get("key")
                    if k is not None and x.get("nontrivial", True):
                        keys.add(h64(str(k)))
                    else:
                        trivial += 1
                    if len(samples) < 2:
                        samples.append({"key": str(k)[:300], "info": _short(x.get("info")), "depth": x.get("depth")})
                elif st != "abort":
                    rec = {k: x.get(k) for k in ("status", "key", "info", "model", "why", "exc", "notes")}
                    try:
                        sg = mod.signature(req["harness"], req["params"], rec)
                    except Exception as e:
                        sg = {"sigerror": repr(e)}
                    rec["sig"] = sg
                    sk = json.dumps(sg, sort_keys=True, default=str)
                    nsig[sk] = nsig.get(sk, 0) + 1
                    if nsig[sk] <= 2 and len(fails) < 400:
                        fails.append(rec)
        finally:
            sys.setprofile(None)
        resp = {"counts": counts, "fails": fails, "samples": samples, "keys": sorted(keys), "rest": rest,
                "nq": CTX.nq, "tq": CTX.tq, "paths": paths, "claims": claims, "trivial": trivial, "nsig": nsig,
                "wall": time.time() - t0}
        if req.get("profile"):
            resp["funcs"] = sorted(prof_funcs)
        if dump is not None:
            resp["smt"] = dump[:req.get("smt_dump")]
        out.write(json.dumps(resp, default=str) + "\n")
        out.flush()
        tmpclean.sweep()
    if cov is not None:
        cov.stop()
        cov.save()


def _short(x, n=600):
    s = json.dumps(x, default=str)
    if len(s) <= n:
        return x
    return s[:n] + "..."


if __name__ == "__main__":
    main()
