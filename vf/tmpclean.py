"""scratch hygiene: every worker / replay interpreter gets a private temporary directory (the engine makes one temp folder per
SyncManager, the storage and filesystem harnesses make files): it is emptied after every task and removed at exit, so that a
check leaves nothing behind under the system temp directory"""
import os, sys, tempfile, shutil, atexit

_DIR = None


def install():
    global _DIR
    base = tempfile.gettempdir()
    _DIR = tempfile.mkdtemp(prefix="verif-w%d-" % os.getpid(), dir=base)
    tempfile.tempdir = _DIR
    os.environ["TMPDIR"] = _DIR
    atexit.register(remove)
    return _DIR


def sweep():
    """between tasks nothing in the directory is live"""
    if not _DIR:
        return
    try:
        for n in os.listdir(_DIR):
            p = os.path.join(_DIR, n)
            if os.path.isdir(p) and not os.path.islink(p):
                shutil.rmtree(p, ignore_errors=True)
            else:
                try:
                    os.unlink(p)
                except OSError:
                    pass
    except OSError:
        pass


def remove():
    if _DIR:
        shutil.rmtree(_DIR, ignore_errors=True)


def sweep_stale(prefix="verif-w"):
    """remove private directories of workers that no longer exist (killed workers cannot clean up after themselves)"""
    base = tempfile.gettempdir() if not _DIR else os.path.dirname(_DIR)
    try:
        names = os.listdir(base)
    except OSError:
        return
    for n in names:
        if n.startswith(prefix):
            pid = n[len(prefix):].split("-")[0]
            if pid.isdigit() and not os.path.exists("/proc/%s" % pid):
                shutil.rmtree(os.path.join(base, n), ignore_errors=True)
