"""prints the measured-numbers table for DESIGN.md from the evidence files of the last runs
usage: python -m vf.numbers"""
import json, os, glob
HERE = os.path.dirname(os.path.dirname(os.path.abspath(__file__)))


def main():
    print("| id | tier of last run | verdict | paths | distinct oracle keys | solver queries | solver s | cpu s | wall s | known findings hit |")
    print("|---|---|---|---|---|---|---|---|---|---|")
    for f in sorted(glob.glob(os.path.join(HERE, "evidence", "by-tier", "C*.json"))):
        e = json.load(open(f))
        c = e["coverage"]
        print("| %s | %s | %s | %s | %s | %s | %.0f | %.0f | %.0f | %s |" % (
            e["property_id"], e["tier"], c.get("verdict"), c.get("paths"), c.get("distinct_nontrivial"), c.get("solver_queries"),
            c.get("solver_seconds") or 0, c.get("cpu_seconds") or 0, e.get("wall_s") or 0, ", ".join(sorted(set((str(k.get("finding")) if isinstance(k, dict) else str(k)) for k in (c.get("known_findings_hit") or [])))) or "-"))


if __name__ == "__main__":
    main()
