"""regenerate MANIFEST.json from the table below (python -m vf.manifest)"""
import json, os, importlib, sys
HERE = os.path.dirname(os.path.dirname(os.path.abspath(__file__)))
sys.path.insert(0, HERE)
ALL = ["C%02d" % i for i in range(1, 21)]
NOTE = ("Bounded: holds for every value inside the stated bounds only (see evidence.coverage.bounds / outside_the_claim). "
        "Trusted base: z3 5.1, the symx proxies (self-validated against CPython on every run), the environment stubs listed in "
        "the evidence file. Every counterexample is replayed on the real code in a fresh interpreter before it is reported.")
CHECKS = {}
NA = {}

def load():
    from vf import registry
    return registry.CHECKS, registry.NA

def main():
    checks, na = load()
    out = {"version": 1,
           "setup_cmd": "./setup.sh",
           "hooks": {"guard": "CLOUDSYNC_VERIF", "enable": "none needed: all instrumentation is harness-side rebinding of module globals; no source hooks exist",
                     "baseline_off_cmd": "cd /repo && /venv/bin/python -m pytest -ra -q -p no:cacheprovider --timeout=900 --continue-on-collection-errors",
                     "source_commits": [], "add_only": True},
           "engines": [{"name": "symx", "path": "symx/", "serves_properties": sorted(checks),
                        "kind_free_text": "own bounded symbolic executor for Python: proxy values over z3 terms, solver-decided branching, "
                                          "depth-first re-execution from decision prefixes, 16 independent worker interpreters"}],
           "checks": [], "not_applicable": [],
           "notes": "exit 0 holds within bounds; exit 1 VIOLATION (replayed on the real code); exit 2 inconclusive (never reported as success). See DESIGN.md."}
    for pid in ALL:
        if pid in checks:
            c = checks[pid]
            out["checks"].append({
                "property_id": pid, "quick_cmd": "./check %s --tier quick" % pid, "thorough_cmd": "./check %s --tier thorough" % pid,
                "evidence_file": "evidence/%s.json" % pid, "replay_cmd_template": "./check %s --replay {path}" % pid, "engine": "symx",
                "level_claimed": {"category": "other", "text": c["text"], "design_ref": c.get("ref", "DESIGN.md §5 " + pid)},
                "level_note": c.get("note", NOTE), "technique": c["technique"]})
        else:
            out["not_applicable"].append({"property_id": pid, "reason": na.get(pid, "check not built yet in this round; no claim is made")})
    json.dump(out, open(os.path.join(HERE, "MANIFEST.json"), "w"), indent=1)
    import jsonschema
    jsonschema.validate(out, json.load(open("/root/.vp/MANIFEST.schema.json")))
    print("MANIFEST.json written:", len(out["checks"]), "checks,", len(out["not_applicable"]), "not applicable")
main()
