"""evaluate one seeded change: confirm its demonstration and the unchanged test results in a scratch worktree, then run a property's
check against a scratch copy of the repository with the change applied (VERIF_REPO), or against /repo itself with --in-repo.

usage: python -m vf.seedeval <seed dir with patch.diff + demo.py> <PROP> [--tier quick] [--in-repo] [--skip-tests]
"""
import sys, os, json, subprocess, shutil, tempfile, time
HERE = os.path.dirname(os.path.dirname(os.path.abspath(__file__)))


def sh(cmd, **kw):
    return subprocess.run(cmd, shell=True, capture_output=True, text=True, **kw)


def passed_set(wt):
    r = sh("cd %s && /venv/bin/python -m pytest -q -p no:cacheprovider --timeout=900 --continue-on-collection-errors -rA 2>&1 | grep -E '^PASSED' | sort" % wt)
    return set(r.stdout.split("\n")) - {""}


def main():
    seed, prop = sys.argv[1], sys.argv[2]
    tier = sys.argv[sys.argv.index("--tier") + 1] if "--tier" in sys.argv else "quick"
    in_repo = "--in-repo" in sys.argv
    patch = os.path.join(seed, "patch.diff")
    demo = os.path.join(seed, "demo.py")
    out = {"seed": seed, "property": prop, "tier": tier}
    wt = tempfile.mkdtemp(prefix="seedchk-", dir="/tmp")
    os.rmdir(wt)
    assert sh("git -C /repo worktree add -q --detach %s HEAD" % wt).returncode == 0
    try:
        env = "cd %s && PYTHONPATH=%s /venv/bin/python %s" % (wt, wt, demo)
        # demos written by the agents assert their own worktree path: rewrite it to ours
        src = open(demo).read()
        import re
        src2 = re.sub(r"/tmp/seed/(w[234]-)?C\d\d", wt, src)
        demo2 = os.path.join(wt, "_demo.py")
        open(demo2, "w").write(src2)
        env = "cd %s && PYTHONPATH=%s /venv/bin/python %s" % (wt, wt, demo2)
        r0 = sh(env)
        out["demo_clean_exit"] = r0.returncode
        if "--skip-tests" not in sys.argv:
            # the PASSED set of the unchanged tree is the same for every seed evaluated against the same /repo HEAD: computed once
            head = sh("git -C /repo rev-parse --short HEAD").stdout.strip()
            cache = "/tmp/seed/basepass-%s.txt" % head
            if os.path.exists(cache) and os.path.getsize(cache) > 1000:
                base = set(open(cache).read().split("\n")) - {""}
            else:
                base = passed_set(wt)
                if len(base) >= 150 and os.path.isdir("/tmp/seed"):
                    open(cache, "w").write("\n".join(sorted(base)))
        a = sh("git -C %s apply %s" % (wt, patch))
        out["patch_applies"] = a.returncode == 0
        if not out["patch_applies"]:
            out["error"] = a.stderr[-500:]
            print(json.dumps(out, indent=1))
            return 2
        r1 = sh(env)
        out["demo_patched_exit"] = r1.returncode
        out["demo_patched_tail"] = (r1.stdout or r1.stderr)[-400:]
        if "--skip-tests" not in sys.argv:
            os.unlink(demo2)
            pat = passed_set(wt)
            out["tests_base_passed"] = len(base)
            out["tests_patched_passed"] = len(pat)
            lost = sorted(base - pat)
            still = []
            for t in lost:            # timing-sensitive tests flake under load: a lost test counts only if it fails again on its own
                tid = t.split(" ", 1)[1] if " " in t else t
                r = sh("cd %s && /venv/bin/python -m pytest -q -p no:cacheprovider --timeout=900 '%s' 2>&1 | tail -1" % (wt, tid))
                if " passed" not in r.stdout:
                    still.append(t)
            out["tests_same"] = not still
            out["tests_lost"] = still[:5]
        else:
            os.unlink(demo2)
        out["confirmed"] = out["demo_clean_exit"] == 0 and out["demo_patched_exit"] == 1 and out.get("tests_same", True)
        # run the check against the patched tree
        t0 = time.time()
        if in_repo:
            assert sh("git -C /repo status --porcelain").stdout.strip() == "", "/repo not clean"
            assert sh("git -C /repo apply %s" % patch).returncode == 0
            try:
                c = sh("cd %s && ./check %s --tier %s --no-evidence" % (HERE, prop, tier))
            finally:
                sh("git -C /repo checkout -- .")
        else:
            c = sh("cd %s && VERIF_REPO=%s ./check %s --tier %s --no-evidence" % (HERE, wt, prop, tier))
        out["check_exit"] = c.returncode
        out["check_wall_s"] = round(time.time() - t0, 1)
        lines = c.stdout.splitlines()
        out["violation_lines"] = [l for l in lines if l.startswith("VIOLATION")][:5]
        out["sigs"] = [l.strip()[:300] for l in lines if l.strip().startswith("sig=")][:5]
        out["inconclusive"] = [l[:300] for l in lines if l.startswith("INCONCLUSIVE")][:3]
        out["summary"] = lines[-1] if lines else c.stderr[-300:]
        out["caught"] = c.returncode == 1
    finally:
        sh("git -C /repo worktree remove --force %s" % wt)
        shutil.rmtree(wt, ignore_errors=True)
    print(json.dumps(out, indent=1))
    return 0


if __name__ == "__main__":
    sys.exit(main())
