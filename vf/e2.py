"""E2: the exported validity queries are decided again by a second solver (cvc5 binary, files not stdin)"""
import os
import re
import shutil
import subprocess
import tempfile
import time


def recheck(items, timeout_s=30):
    """items: [(job label, claim label, smt2 text, z3 verdict)] -> summary dict"""
    cvc5 = shutil.which("cvc5")
    out = {"solver": None, "queries": 0, "agree": 0, "disagreements": 0, "unknown": 0, "errors": 0, "seconds": 0.0, "details": []}
    if not cvc5:
        out["solver"] = "cvc5 not found"
        return out
    try:
        out["solver"] = subprocess.run([cvc5, "--version"], capture_output=True, text=True).stdout.splitlines()[0]
    except Exception:
        out["solver"] = "cvc5"
    d = tempfile.mkdtemp(prefix="verif-e2-")
    t0 = time.time()
    try:
        for i, it in enumerate(items):
            job, label, text = it[0], it[1], it[2]
            z3v = it[3] if len(it) > 3 else None
            if z3v not in ("sat", "unsat"):
                continue
            # logic: reals present -> nonlinear real arithmetic, else integers
            has_real, has_int = " Real)" in text, " Int)" in text
            logic = "QF_NIRA" if (has_real and has_int) else ("QF_NRA" if has_real else "QF_LIA")
            body = re.sub(r"\(set-info[^\n]*\n", "", text)
            path = os.path.join(d, "q%d.smt2" % i)
            with open(path, "w") as f:
                f.write("(set-logic %s)\n" % logic + body + ("\n(check-sat)\n" if "(check-sat)" not in body else ""))
            try:
                p = subprocess.run([cvc5, "--lang=smt2", "--tlimit=%d" % (timeout_s * 1000), path], capture_output=True, text=True, timeout=timeout_s + 10)
                res = (p.stdout + p.stderr).strip()
            except subprocess.TimeoutExpired:
                res = "timeout"
            out["queries"] += 1
            first = res.splitlines()[0].strip() if res else ""
            if "(error" in res or "error" in first.lower():
                out["errors"] += 1
                out["details"].append({"job": job, "claim": label, "z3": z3v, "cvc5": res[:200]})
            elif first in ("sat", "unsat"):
                if first == z3v:
                    out["agree"] += 1
                else:
                    out["disagreements"] += 1
                    out["details"].append({"job": job, "claim": label, "z3": z3v, "cvc5": first})
            else:
                out["unknown"] += 1
    finally:
        shutil.rmtree(d, ignore_errors=True)
    out["seconds"] = round(time.time() - t0, 2)
    out["details"] = out["details"][:10]
    return out
