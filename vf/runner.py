"""master side: distributes decision-prefix subtrees over independently started workers"""
import os
import sys
import json
import time
import queue
import threading
import subprocess

HERE = os.path.dirname(os.path.dirname(os.path.abspath(__file__)))
PY = os.path.join(HERE, ".venv", "bin", "python")
REPO = os.environ.get("VERIF_REPO", "/repo")


def _env():
    e = dict(os.environ)
    e["PYTHONDONTWRITEBYTECODE"] = "1"
    e["PYTHONHASHSEED"] = "0"
    e["PYTHONPATH"] = HERE
    e.setdefault("VERIF_REPO", REPO)
    return e


class Worker:
    def __init__(self, modname, idx):
        self.idx = idx
        self.errpath = os.path.join(HERE, ".cache", "worker-%s-%d-%d.err" % (modname.split(".")[-1], os.getpid(), idx))
        os.makedirs(os.path.dirname(self.errpath), exist_ok=True)
        self.err = open(self.errpath, "w")
        self.p = subprocess.Popen([PY, "-m", "vf.worker", modname], stdin=subprocess.PIPE, stdout=subprocess.PIPE,
                                  stderr=self.err, cwd=HERE, env=_env(), text=True, bufsize=1)
        self.ready = False

    def wait_ready(self):
        line = self.p.stdout.readline()
        if not line:
            raise RuntimeError("worker failed to start: " + open(self.errpath).read()[-2000:])
        self.ready = True

    def call(self, req):
        self.p.stdin.write(json.dumps(req) + "\n")
        self.p.stdin.flush()
        line = self.p.stdout.readline()
        if not line:
            raise RuntimeError("worker died: " + open(self.errpath).read()[-3000:])
        return json.loads(line)

    def close(self):
        try:
            self.p.stdin.write(json.dumps({"quit": True}) + "\n")
            self.p.stdin.flush()
            self.p.wait(timeout=5)
        except Exception:
            self.p.kill()
        self.err.close()
        try:
            os.unlink(self.errpath)
        except OSError:
            pass

    def kill(self):
        try:
            self.p.kill()
        except Exception:
            pass
        self.err.close()


class Agg:
    """aggregated result of one job (harness + params)"""

    def __init__(self, job):
        self.job = job
        self.counts = {}
        self.fails = []
        self.nsig = {}
        self.kept = {}
        self.samples = []
        self.keys = set()
        self.paths = 0
        self.nq = 0
        self.tq = 0.0
        self.cpu = 0.0
        self.claims = 0
        self.trivial = 0
        self.funcs = set()
        self.smt = []
        self.unfinished = 0
        self.error = None

    def add(self, r):
        for k, v in r["counts"].items():
            self.counts[k] = self.counts.get(k, 0) + v
        for k, v in r.get("nsig", {}).items():
            self.nsig[k] = self.nsig.get(k, 0) + v
        for f in r["fails"]:
            sk = json.dumps(f.get("sig"), sort_keys=True, default=str)
            if self.kept.get(sk, 0) < 3 and len(self.fails) < 3000:
                self.kept[sk] = self.kept.get(sk, 0) + 1
                self.fails.append(f)
        if len(self.samples) < 4:
            self.samples.extend(r["samples"][: 4 - len(self.samples)])
        self.keys.update(r["keys"])
        self.paths += r["paths"]
        self.nq += r["nq"]
        self.tq += r["tq"]
        self.cpu += r.get("wall", 0)
        self.claims += r.get("claims", 0)
        self.trivial += r.get("trivial", 0)
        self.funcs.update(r.get("funcs", ()))
        if r.get("smt") and len(self.smt) < 6:
            self.smt.extend(r["smt"][: 6 - len(self.smt)])


def run_jobs(modname, jobs, nworkers=None, deadline=None, log=None):
    """explore every job's path tree to exhaustion (or until deadline). returns [Agg]"""
    nworkers = nworkers or min(16, os.cpu_count() or 4)
    aggs = [Agg(j) for j in jobs]
    if not jobs:
        return aggs
    q = queue.LifoQueue()
    for i, j in reversed(list(enumerate(jobs))):
        q.put((i, [], True))
    inflight = [0]
    lock = threading.Lock()
    stop = threading.Event()
    nworkers = max(1, min(nworkers, 16))
    workers = [Worker(modname, i) for i in range(nworkers)]
    errors = []

    def loop(w):
        try:
            w.wait_ready()
            while not stop.is_set():
                try:
                    with lock:
                        item = q.get_nowait()
                        inflight[0] += 1
                except queue.Empty:
                    with lock:
                        if inflight[0] == 0:
                            return
                    time.sleep(0.01)
                    continue
                i, prefix, first = item
                job = jobs[i]
                small = q.qsize() < 3 * nworkers
                req = {"harness": job["harness"], "params": job["params"], "prefix": prefix,
                       "max_paths": job.get("chunk_small", 24) if small else job.get("chunk", 600),
                       "max_seconds": 1.5 if small else 12,
                       "profile": first, "smt_dump": job.get("smt_dump", 0) if first else 0}
                try:
                    r = w.call(req)
                except Exception as e:
                    errors.append(str(e))
                    stop.set()
                    with lock:
                        inflight[0] -= 1
                    return
                with lock:
                    aggs[i].add(r)
                    for p in r["rest"]:
                        q.put((i, p, False))
                    inflight[0] -= 1
                if deadline and time.time() > deadline:
                    stop.set()
        except Exception as e:
            errors.append(repr(e))
            stop.set()

    threads = [threading.Thread(target=loop, args=(w,), daemon=True) for w in workers]
    for t in threads:
        t.start()
    for t in threads:
        while t.is_alive():
            t.join(0.5)
            if deadline and time.time() > deadline + 30:
                stop.set()
                break
    # whatever is left in the queue was not explored
    while True:
        try:
            i, p, _ = q.get_nowait()
            aggs[i].unfinished += 1
        except queue.Empty:
            break
    for w in workers:
        if stop.is_set():
            w.kill()
        else:
            w.close()
    if errors:
        for a in aggs:
            a.error = errors[0]
    return aggs


def replay_in_fresh_interpreter(modname, harness, params, model, extra=None, timeout=300):
    """run the harness's concrete replay in a new interpreter without the symbolic layer"""
    req = {"module": modname, "harness": harness, "params": params, "model": model, "extra": extra}
    p = subprocess.run([PY, "-m", "vf.replay"], input=json.dumps(req), capture_output=True, text=True, cwd=HERE,
                       env=_env(), timeout=timeout)
    last = None
    for line in p.stdout.splitlines():
        if line.startswith("REPLAY-RESULT "):
            last = json.loads(line[len("REPLAY-RESULT "):])
    if last is None:
        return {"reproduced": None, "detail": "replay crashed: " + (p.stderr or p.stdout)[-1500:]}
    return last
