"""which properties are claimed, in which words (source of MANIFEST.json)"""
CHECKS = {
 "C13": {"text": "Bounded symbolic verification (M1 through-flow): the real path helpers and CloudSync.translate are executed on strings "
                 "whose characters are solver variables; each algebraic law is decided by z3 on every path for all strings over a 10-letter "
                 "alphabet up to length 5 (7 thorough), 4 provider conventions. Right level: pure functions over strings, where the rare "
                 "failing inputs (empty/one-character/normalises-to-empty) are exactly what sampling misses.",
         "technique": "bounded symbolic execution of the real Python functions over z3 integer-coded strings; z3 validity query per law and path; concrete replay"},
}
NA = {}
