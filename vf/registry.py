"""which properties are claimed, in which words (source of MANIFEST.json)"""
CHECKS = {
 "C13": {"text": "Bounded symbolic verification (M1 through-flow): the real path helpers and CloudSync.translate are executed on strings "
                 "whose characters are solver variables; each algebraic law is decided by z3 on every path for all strings over a 10-letter "
                 "alphabet up to length 5 (7 thorough), 4 provider conventions. Right level: pure functions over strings, where the rare "
                 "failing inputs (empty/one-character/normalises-to-empty) are exactly what sampling misses.",
         "technique": "bounded symbolic execution of the real Python functions over z3 integer-coded strings; z3 validity query per law and path; concrete replay"},
}
NA = {}
CHECKS["C01"] = {
 "text": "Exhaustive bounded exploration with solver-enumerated choices (M2): every history of 2 user operations (11 kinds x 2 sides) "
         "with every 1-slot schedule (thorough: 2 slots, 3 operations, 6 flavours) is run through the real engine over two MockProviders; "
         "quiescence within 40 fair rounds and equality of both trees are checked on each. Right level: the engine is 4000 lines of "
         "stateful Python with I/O-like calls; the defects live in particular short histories and schedules, which exhaustive bounded "
         "enumeration reaches and a test suite samples.",
 "technique": "bounded exhaustive exploration; user operations and schedule slots are z3 integer choices enumerated by solver-decided branching over the real engine; concrete replay"}
