"""which properties are claimed, in which words (source of MANIFEST.json)"""
CHECKS = {
 "C13": {"text": "Bounded symbolic verification (M1 through-flow): the real path helpers and CloudSync.translate are executed on strings "
                 "whose characters are solver variables; each algebraic law is decided by z3 on every path for all strings over a 10-letter "
                 "alphabet up to length 5 (7 thorough), 4 provider conventions. Right level: pure functions over strings, where the rare "
                 "failing inputs (empty/one-character/normalises-to-empty) are exactly what sampling misses.",
         "technique": "bounded symbolic execution of the real Python functions over z3 integer-coded strings; z3 validity query per law and path; concrete replay"},
}
NA = {}
CHECKS["C01"] = {
 "text": "Exhaustive bounded exploration with solver-enumerated choices (M2): every history of 2 user operations (11 kinds x 2 sides) "
         "with every 1-slot schedule (thorough: 2 slots, 3 operations, 6 flavours) is run through the real engine over two MockProviders; "
         "quiescence within 40 fair rounds and equality of both trees are checked on each. Right level: the engine is 4000 lines of "
         "stateful Python with I/O-like calls; the defects live in particular short histories and schedules, which exhaustive bounded "
         "enumeration reaches and a test suite samples.",
 "technique": "bounded exhaustive exploration; user operations and schedule slots are z3 integer choices enumerated by solver-decided branching over the real engine; concrete replay"}
CHECKS["C18"] = {
 "text": "Bounded symbolic verification (M1) of the real Runnable.run loop and NotificationManager: backoff parameters are z3 reals, every outcome "
         "sequence of length 4 (5) over {did something, nothing happened, backoff(), Exception, BaseException} is enumerated by the solver, and each "
         "requested sleep is proved equal to min(max, min*mult^(k-1)) by a nonlinear real validity query; stop point/finality and handler failures "
         "are solver choices. Cross-thread races of stop/wake/start are outside this technique and not claimed.",
 "technique": "bounded symbolic execution of Runnable.run with z3 reals for min/max/mult (QF_NRA validity per path), solver-enumerated outcome/stop/handler-failure choices; exact-fraction replay"}
CHECKS["C17"] = {
 "text": "Bounded symbolic verification (M1) of the real SyncState.update/mark_changed/change/punt with every clock read a fresh z3 real, ageing a z3 real "
         "and priorities z3 integers: eligibility, (priority, time) minimality, None-iff-nothing-eligible, punt arithmetic, bounded delay, strictly "
         "increasing change times are validity queries on every path (2-3 entries); plus engine-level first-write-vs-ageing on the virtual clock (M2).",
 "technique": "bounded symbolic execution of SyncState scheduling code under a symbolic non-decreasing clock (z3 LRA/LIA validity per path); solver-enumerated engine schedules for the ageing law"}
CHECKS["C09"] = {
 "text": "Bounded symbolic verification (M1): the six SqliteStorage methods run for real over a symbolic 3-row relation; the SQL text they pass at run time is "
         "interpreted symbolically and every result/exception/post-state is compared with a (tag,id)->bytes map by z3 validity queries, from an arbitrary table "
         "(inductive step) and for 2-call sequences; each path is cross-checked on real in-memory SQLite. MockStorage: real class under solver-enumerated 3-4 call "
         "sequences with re-open. The on-disk backend is additionally run for real on a temporary file under solver-enumerated call sequences with one injected OperationalError "
         "(reconnect path) and close/reopen: acknowledged writes must be exactly what a fresh connection sees. Crash durability and concurrent callers are outside and not claimed.",
 "technique": "bounded symbolic execution of SqliteStorage over a z3-encoded relation with run-time SQL interpretation; z3 validity queries against a map model; per-path translation validation on real SQLite"}
CHECKS["C16"] = {
 "text": "(a) Bounded symbolic verification (M1, linear integer arithmetic) of the filesystem provider's hash kernel: file length is a z3 integer, reads are index "
         "intervals, blake2b an injective recording stub; hash(info) == hash_data(same bytes) for every content is the validity of 'both interval sequences cover [0,L)' "
         "for every L <= 12293. (b) Exhaustive bounded exploration (M2) of MockProvider against a reference tree: error classes, info/exists/listdir/download agreement, id "
         "stability, hash == hash_data, events for every mutation, identity check on connect; the real FileSystemProvider's file operations and mtime-keyed hash cache run on a "
         "real temporary directory under solver-enumerated 4-call sequences (hash reported == hash_data of served bytes after every call). Folder operations and watchdog events of "
         "the filesystem provider are outside.",
 "technique": "bounded symbolic execution of the hash kernel over z3 integer intervals (QF_LIA validity); solver-enumerated MockProvider call sequences against a reference tree; replay on real files"}
CHECKS["C19"] = {
 "text": "Exhaustive bounded exploration with solver-enumerated choices (M2) of the real HierarchicalCache: all 2-call (thorough: 3-call on a smaller pool) sequences over 7 operations, "
         "6 paths, 3 ids + None, both case modes; structural invariants (acyclic, parent/child consistent, exact id index, id uniqueness, id<->path inverse) and a dictionary "
         "model are checked after every call, also after calls the cache rejects.",
 "technique": "bounded exhaustive exploration; call kind/path/id/type are z3 integer choices enumerated by solver-decided branching over the real HierarchicalCache; structural walk + dictionary model oracle"}
CHECKS["C11"] = {
 "text": "Exhaustive bounded exploration with solver-enumerated choices (M2) on the real SyncState: all 2-operation (thorough 3) sequences of raw events (both id styles, prior ids, "
         "stale/duplicate), field assignments, discard, split and side-state moves, plus every state the engine reaches in all 2-operation C01 histories; after each step: every live "
         "entry reachable by id and path, no stale slot, one owner per id, pending set exact.",
 "technique": "bounded exhaustive exploration; state-level operations and engine schedules are z3 integer choices enumerated by solver-decided branching over the real SyncState/engine; structural invariant oracle"}
CHECKS["C08"] = {
 "text": "Exhaustive bounded exploration with solver-enumerated choices (M2) using the real msgpack codec: (a) every combination of field value shapes (7 hash shapes, unicode/integer ids "
         "and paths, all existence values incl. corrupt-over-each, all ignore reasons) round-trips through serialize -> storage -> SyncState load field by field, legacy rows load as "
         "documented; (b) every public attribute assignment followed by commit leaves the stored row equal to the entry; (c) after EVERY engine step of all 2-operation C01 histories the "
         "decoded storage equals the live entries and a reloaded state gives the same lookups and pending set.",
 "technique": "bounded exhaustive exploration; field shapes, assignments, user operations and schedules are z3 integer choices enumerated by solver-decided branching over the real codec/state/engine; per-step storage-vs-memory oracle"}
CHECKS["C03"] = {
 "text": "Exhaustive bounded exploration with solver-enumerated choices (M2): all one-sided histories of 2 (thorough 3) operations from 16 kinds, both directions, three synchronised base "
         "trees, every 1-slot (2-slot) schedule, through the real engine. Origin side unchanged across every engine step, exact mirror without '.conflicted' at quiescence, and no "
         "provider write in three further rounds.",
 "technique": "bounded exhaustive exploration; one-sided operation histories and schedule slots are z3 integer choices enumerated by solver-decided branching over the real engine; per-step origin snapshot, mirror and echo oracles"}
CHECKS["C04"] = {
 "text": "Exhaustive bounded exploration with a solver-expressed disjointness constraint (M2): per-side operation sequences (1+1, 2+1; thorough 2+2) over 14 operation kinds whose touched "
         "object sets are constrained disjoint in z3, every interleaving and schedule slot, through the real engine; both quiet-state trees must equal base + both deltas exactly.",
 "technique": "bounded exhaustive exploration; per-side operation indices are z3 integers under a disjointness constraint, interleavings and slots enumerated by solver-decided branching over the real engine; reference-tree oracle"}
CHECKS["C02"] = {
 "text": "Exhaustive bounded exploration with solver-enumerated choices (M2): two-sided histories of 2-3 operations on a shared name (same-path creates, edit/edit, edit/delete, "
         "delete/recreate, file-vs-folder, rename away, one copy becoming unreadable) with every schedule slot, through the real engine, under a version-provenance oracle: no "
         "content a user wrote and nobody deleted or overwrote may be missing from both sides at quiescence; unreadable content is never copied, the good copy survives.",
 "technique": "bounded exhaustive exploration; two-sided operation histories, corrupt-read placement and schedule slots are z3 integer choices enumerated by solver-decided branching over the real engine; version-provenance oracle"}
CHECKS["C05"] = {
 "text": "Exhaustive bounded exploration with solver-enumerated choices (M2): 2 conflict shapes x 7 content pairs x 11 resolver behaviours x every 2-slot (3-slot) schedule after the conflict "
         "exists, through the real engine with the resolver overridden at its documented override point; call count, handle bytes/labels and the statement's outcome table are checked "
         "on both final trees.",
 "technique": "bounded exhaustive exploration; resolver behaviour, content pair and schedule are z3 integer choices enumerated by solver-decided branching over the real engine; outcome-table oracle"}
CHECKS["C06"] = {
 "text": "Exhaustive bounded exploration with solver-enumerated choices (M2): operation, 0..2 (0..4) engine steps, stop at that boundary, 1 (2) operations while stopped, three storage "
         "variants (intact, cursor removed, cursor rejected), restart over the same storage and accounts through the real engine. Convergence / no re-transfer / no conflict artefacts "
         "with intact storage; with a lost cursor everything created or modified reaches both sides through the walk fallback.",
 "technique": "bounded exhaustive exploration; operations, stop point and storage damage are z3 integer choices enumerated by solver-decided branching over the real engine restarted on persisted storage; convergence/no-retransfer/walk-fallback oracles"}
CHECKS["C07"] = {
 "text": "Exhaustive bounded exploration with the crash instant as a solver variable (M2): for every history in the family, every storage write (die before) and every engine-issued provider "
         "write (die after) up to the 10th (14th) of the run is taken as the crash point; restart over the surviving storage and provider contents through the real engine; convergence, no "
         "lost user content, no conflict artefacts for one-sided histories, no duplication.",
 "technique": "bounded exhaustive exploration; operations, crash kind and crash index are z3 integer choices enumerated by solver-decided branching over the real engine with a crash-injecting storage/provider wrapper and restart"}
CHECKS["C10"] = {
 "text": "Exhaustive bounded exploration with symbolic fault placement (M2): for every 1-operation history, a fault of each of 4 kinds at every provider-API call index 1..30 (thorough: two "
         "faults) while every step runs through the real Runnable.run iteration and notifications through the real NotificationManager; nothing escapes, the matching notification is "
         "delivered, the sides converge afterwards without losing user content; a persistently failing file (locked / invalid name) is reported, does not block a healthy file and is "
         "synchronised after the failure is lifted.",
 "technique": "bounded exhaustive exploration; operation, fault call indices and kinds are z3 integer choices enumerated by solver-decided branching over the real engine and service loops with a fault-injecting provider wrapper"}
CHECKS["C12"] = {
 "text": "Exhaustive bounded exploration with solver-enumerated choices (M2): histories mixing operations inside the roots, in a prefix-sibling folder, elsewhere in the account and moves "
         "across the boundary (files and folders, both directions), with roots by path / by id, event filtering, and a declining translate, through the real engine. After every engine "
         "step: nothing outside the roots changed and every engine-issued mutation targets a path inside the root; at quiescence the roots agree and no outside or declined content crossed. "
         "The translate function itself is verified symbolically under C13.",
 "technique": "bounded exhaustive exploration; operations (inside/outside/across the root boundary) and schedules are z3 integer choices enumerated by solver-decided branching over the real engine; per-step outside-snapshot and call-target oracles"}
CHECKS["C14"] = {
 "text": "Exhaustive bounded differential exploration (M2): every history/schedule in the family is run with prompt in-order delivery and again with one solver-chosen mangling of one "
         "side's event stream (14 kinds: duplication, per-event batching, interleaved walks, id-less and vanished-object events, and for id-stable providers reordering, delay, dropped "
         "paths); final trees, deletes and spurious transfers are compared with the unmangled run.",
 "technique": "bounded exhaustive differential exploration; operations, schedule, mangling kind and side are z3 integer choices enumerated by solver-decided branching; the real engine is run with and without an event-mangling provider wrapper"}
CHECKS["C20"] = {
 "text": "Exhaustive bounded exploration with solver-enumerated choices (M2) on the real on-demand sync classes: all sequences of 3 (thorough 4) actions from 10 kinds (remote changes, local "
         "creations/edits, request by path/id, un-request, merged listing) with a schedule slot after each, with and without an auto-sync predicate; 'never downloaded unless requested' is "
         "checked after every engine step and API call, un-request/listing contracts at the call, mirror/upload/in-sync conditions at quiescence.",
 "technique": "bounded exhaustive exploration; action sequences and schedule slots are z3 integer choices enumerated by solver-decided branching over the real SmartCloudSync engine; per-step and final oracles"}
CHECKS["C15"] = {
 "text": "Decidable part only (lock discipline by exhaustive path exploration, M2): every call into the shared state's mutation hooks made from EventManager.do, SyncManager.do, the "
         "CloudSync application calls and the SmartCloudSync API, over all histories/schedules/call sequences in the bound, must happen while the calling thread owns state.lock (lockset "
         "argument: lock ownership at a mutation is a property of one thread's path). The claim that real threaded executions reach C01-C04 is outside this technique and not claimed.",
 "technique": "bounded exhaustive exploration of each thread entry point's paths (z3-enumerated histories, schedules, API call sequences) with a lock-ownership monitor on every state mutation hook"}

# additions made after the seeded-change rounds (appended to the notes above)
_ADD = {
 "C01": " Fixed multi-step two-sided stories (with solver-chosen 'run until quiet' gaps) on three id pairings, and a family in which the last operation lands inside an engine step (before its k-th provider call), extend the histories.",
 "C02": " A transient corrupt-read fault placed at the first download of a fresh version, and a file leaving the root while the peer edits it, are further families.",
 "C03": " Fixed one-sided stories under fine and guided 'late echo' schedules (a change mirrored before the peer's echo events are read) on three id pairings.",
 "C04": " Focused families and one-sided stories (rename chains, name re-use, rename back, folder emptied and removed) with the other side creating an unrelated file.",
 "C05": " Schedule independence is a differential oracle against the canonical fair schedule; two successive conflicts on one file; provider pairs with different hash functions.",
 "C06": " Cold start with a stop inside the start-up walk, the first session of an empty pair, and three engine generations over one storage are further families.",
 "C07": " Cold start with the crash at any write of the first run, and one more user operation after the recovery, are further families.",
 "C08": " Intake batches cut short by a temporary error after k events are included; so are split/discard of an entry in one step and a commit whose n-th storage write fails once and is retried.",
 "C09": " The on-disk backend is also run concretely with an injected reconnect and close/reopen, and with two callers interleaved at the storage mutex's release points (linearizability oracle).",
 "C10": " Cold start with one fault during the start-up walk, two faults close together, and a peer edit between the fault and the retry are further families.",
 "C12": " Account pairs that differ in case sensitivity (with a case-variant sibling of the root) and an in-root delete followed by a byte-identical file outside the root are further families.",
 "C14": " Name-reuse stories with intermediate quiet points and a 40-call delay of a batch's first event are included.",
 "C15": " The state lock must also be owned at every provider call made inside one entry synchronisation (atomicity of the step).",
 "C17": " A negative rating must survive the completion of a related entry.",
 "C18": " stop() calls placed between start() returning and the service thread entering run() are explored sequentially, and stop_all() over services in any prior state (never started, not yet entered, ended by until(), paused, finally stopped).",
 "C19": " Renames onto the same path or an ancestor and deletes of the root are included; a second family starts from a populated three-level tree.",
 "C20": " Focused families cover un-request by id, nested remote files, un-request of a predicate match followed by a remote edit, un-request while the upload fails, and ghost entries in the merged listing.",
}
for _k, _v in _ADD.items():
    CHECKS[_k]["text"] = CHECKS[_k]["text"] + _v
