"""development helper: run one job of a property module in-process, single core"""
import sys, os, json, time, importlib, collections
HERE = os.path.dirname(os.path.dirname(os.path.abspath(__file__)))
sys.path.insert(0, HERE); sys.path.insert(0, os.environ.get("VERIF_REPO", "/repo"))
sys.dont_write_bytecode = True
from symx import core
def main():
    mod = importlib.import_module("props." + sys.argv[1].lower())
    tier = sys.argv[2]; filt = sys.argv[3] if len(sys.argv) > 3 else ""
    limit = int(sys.argv[4]) if len(sys.argv) > 4 and sys.argv[4].isdigit() else None
    for job in mod.jobs(tier):
        if filt not in job["label"]: continue
        fn = mod.HARNESSES[job["harness"]](dict(job["params"]))
        t0 = time.time(); c = collections.Counter(); shown = 0; core.CTX.nq = 0; core.CTX.tq = 0
        sigs = collections.Counter()
        for k, x in core.explore(fn, max_paths=limit):
            if k != "leaf": 
                if x: print("  unexplored:", len(x))
                continue
            c[x["status"]] += 1
            if x["status"] not in ("ok", "abort"):
                s = json.dumps(mod.signature(job["harness"], job["params"], x), sort_keys=True)
                sigs[s] += 1
                if sigs[s] == 1 and shown < 6:
                    shown += 1
                    print("  ", x["status"], x.get("info"), x.get("model"), (x.get("why") or "")[-600:])
                    if "-r" in sys.argv:
                        print("   replay:", mod.replay(job["harness"], dict(job["params"]), x.get("model")))
        print(job["label"], dict(c), "%.1fs" % (time.time() - t0), "q=%d" % core.CTX.nq, "solver=%.1fs" % core.CTX.tq)
        for s, n in sigs.most_common(8): print("    ", n, s)
main()
