"""development aid (no verdict depends on it): estimate the size of a tier before running it.

Knuth's tree-size estimator on the choice tree of the M2 harnesses: a dive takes every choice uniformly at
random and multiplies the arities; the mean over dives is an unbiased estimate of the number of paths.  Dives
run the real harness concretely (no solver), so they also measure the cost per path.
usage: python -m vf.estimate <Cxx> <tier> [dives-per-job]"""
import sys, os, time, json, random, importlib, inspect
from concurrent.futures import ProcessPoolExecutor

HERE = os.path.dirname(os.path.dirname(os.path.abspath(__file__)))


class Reject(Exception):
    pass


class RandomEnv:
    symbolic = False

    class Mismatch(Exception):
        pass

    def __init__(self, rnd):
        self.rnd = rnd
        self.w = 1

    def choose(self, name, n):
        if n <= 1:
            return 0
        self.w *= n
        return self.rnd.randrange(n)

    def var(self, name, lo, hi):
        self.w *= (hi - lo + 1)
        return self.rnd.randint(lo, hi)

    def assume(self, c):
        if not c:
            raise Reject()

    def content(self, name):
        return b"T%d" % self.rnd.randrange(3)


def one_job(args):
    modname, job, dives, seed = args
    sys.path.insert(0, os.environ.get("VERIF_REPO") or "/repo")
    sys.path.insert(0, HERE)
    mod = importlib.import_module(modname)
    from props import _lab
    fac = mod.HARNESSES[job["harness"]]
    if "env" not in inspect.signature(fac).parameters:
        return {"label": job["label"], "est": None}
    rnd = random.Random(seed)
    tot = 0.0
    t0 = time.time()
    for i in range(dives):
        env = RandomEnv(rnd)
        try:
            fac(dict(job["params"]), env=env)()
            tot += env.w
        except (Reject, _lab.ConcreteEnv.Mismatch):
            pass
        except Exception:
            tot += env.w
    return {"label": job["label"], "est": tot / dives, "per_path_s": (time.time() - t0) / dives}


def main():
    pid, tier = sys.argv[1], sys.argv[2]
    dives = int(sys.argv[3]) if len(sys.argv) > 3 else 12
    modname = "props." + pid.lower()
    sys.path.insert(0, os.environ.get("VERIF_REPO") or "/repo")
    sys.path.insert(0, HERE)
    mod = importlib.import_module(modname)
    jobs = [j for j in mod.jobs(tier) if j.get("role", "main") == "main"]
    with ProcessPoolExecutor(int(os.environ.get("VERIF_WORKERS") or 8)) as ex:
        res = list(ex.map(one_job, [(modname, j, dives, k) for k, j in enumerate(jobs)]))
    tot = sum(r["est"] or 0 for r in res)
    cost = [r["per_path_s"] for r in res if r.get("per_path_s")]
    avg = sum(cost) / max(1, len(cost))
    fams = {}
    fcpu = {}
    for r in res:
        key = r["label"].split("first=")[0]
        fams[key] = fams.get(key, 0) + (r["est"] or 0)
        fcpu[key] = fcpu.get(key, 0) + (r["est"] or 0) * (r.get("per_path_s") or 0)
    for k, v in sorted(fams.items(), key=lambda kv: -kv[1])[:40]:
        print("%12.0f paths %9.0f cpu-s  %s" % (v, fcpu[k], k))
    print("%s %s: jobs=%d estimated paths=%.0f  concrete cost/path=%.3fs  => ~%.0f cpu-s without solver overhead (x1.5-2 with it), ~%.1f min on 16 cores"
          % (pid, tier, len(jobs), tot, avg, tot * avg, tot * avg * 1.7 / 16 / 60))


if __name__ == "__main__":
    main()
