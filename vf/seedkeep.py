"""copy evaluated seeds into /verif/seeded/<id>/ with meta.json, and (re)generate seeded/README.md
usage: python -m vf.seedkeep  (reads /tmp/seed/out/*/{A,B} and /tmp/seed/eval/*.json)"""
import os, json, shutil, glob, re
HERE = os.path.dirname(os.path.dirname(os.path.abspath(__file__)))
OUT = os.path.join(HERE, "seeded")
NEEDS = json.load(open(os.path.join(HERE, "vf", "seedneeds.json")))
NOTES = json.load(open(os.path.join(HERE, "vf", "seednotes.json"))) if os.path.exists(os.path.join(HERE, "vf", "seednotes.json")) else {}


def main():
    rows = []
    for ev in sorted(glob.glob("/tmp/seed/eval/C*-[A-F]*.json")):
        try:
            d = json.load(open(ev))
        except Exception:
            continue
        name = os.path.basename(ev)[:-5]          # C13-A or C13-A.v2
        m = re.match(r"(C\d\d)-([A-F])(.*)", name)
        prop, var = m.group(1), m.group(2)
        sid = "%s-%s" % (prop, var)
        src = "/tmp/seed/out/%s/%s" % (prop, var)
        if not d.get("confirmed"):
            continue
        dst = os.path.join(OUT, sid)
        os.makedirs(dst, exist_ok=True)
        if os.path.exists(os.path.join(src, "note.md")) and not os.path.exists(os.path.join(src, "notes.md")):
            shutil.copy(os.path.join(src, "note.md"), os.path.join(src, "notes.md"))
        for f in ("patch.diff", "demo.py", "notes.md"):
            if os.path.exists(os.path.join(src, f)):
                shutil.copy(os.path.join(src, f), os.path.join(dst, f))
        notes = open(os.path.join(src, "notes.md")).read() if os.path.exists(os.path.join(src, "notes.md")) else ""
        meta_path = os.path.join(dst, "meta.json")
        meta = json.load(open(meta_path)) if os.path.exists(meta_path) else {}
        meta.update({
            "id": sid, "breaks_property": prop,
            "origin": "written by a fresh sub-agent given only the property text and its own scratch worktree",
            "needs_to_manifest": NEEDS.get(sid) or meta.get("needs_to_manifest") or _needs(notes),
            "confirmed_by": {"demo_exit_clean_tree": d.get("demo_clean_exit"), "demo_exit_with_patch": d.get("demo_patched_exit"),
                             "stable_tests_unchanged": d.get("tests_same"), "stable_tests_passed": d.get("tests_patched_passed"),
                             "how": "python -m vf.seedeval (scratch worktree of /repo HEAD; demo run without and with the patch; PASSED set of the pinned suite compared)"},
        })
        runs = meta.setdefault("check_runs", [])
        entry = {"check": "./check %s --tier %s" % (d["property"], d["tier"]), "exit": d.get("check_exit"), "caught": d.get("caught"), "wall_s": d.get("check_wall_s"),
                 "signatures": d.get("sigs", [])[:2], "inconclusive": d.get("inconclusive", [])[:1], "against": "patched checkout via VERIF_REPO", "eval_file": name}
        runs[:] = [r for r in runs if r.get("eval_file") != name] + [entry]
        json.dump(meta, open(meta_path, "w"), indent=1)
    # README
    lines = ["# Seeded changes", "",
             "Written by fresh sub-agents that were given only the text of one property and their own scratch worktree of /repo (nothing from /verif).",
             "Each directory holds `patch.diff` (apply with `git -C /repo apply`), `demo.py` (exits 1 with the change, 0 without), the author's `notes.md`, and `meta.json`",
             "(what it breaks, what it needs to manifest, how it was confirmed, every run of my checks against it).",
             "Every seed was confirmed by me in a scratch worktree: demo passes on the clean tree, fails with the patch, and the pinned suite's PASSED set is unchanged (`vf/seedeval.py`).",
             "Checks were run against a patched checkout (`VERIF_REPO=<worktree> ./check <id> --tier quick`), never committed to /repo.", "",
             "`first run` = the check as it stood when the seed arrived; `now` = after the strengthening described in DESIGN.md §5/§9 (blank = unchanged, caught from the start).", "",
             "| seed | breaks | first run | now | signature of the reported violation | needs to manifest |", "|---|---|---|---|---|---|"]
    for mp in sorted(glob.glob(os.path.join(OUT, "C*", "meta.json"))):
        m = json.load(open(mp))
        runs = sorted(m.get("check_runs", []), key=lambda r: r.get("eval_file", ""))
        first = runs[0] if runs else {}
        last = runs[-1] if len(runs) > 1 else None
        best = next((r for r in reversed(runs) if r.get("caught")), first)
        sig = (best.get("signatures") or [""])[0].replace("|", "\\|")[:150]
        f1 = "caught" if first.get("caught") else "**missed**"
        f2 = "" if last is None else ("caught" if last.get("caught") else "**missed**")
        note = NOTES.get(m["id"])
        if note:
            f2 = (f2 or f1) + " (" + note + ")"
        lines.append("| %s | %s | %s | %s | %s | %s |" % (m["id"], m["breaks_property"], f1, f2, sig, (m.get("needs_to_manifest") or "").replace("|", "/").replace("\n", " ")[:260]))
    # summary per round
    ENGINE = "C01 C02 C03 C04 C05 C06 C07 C10 C12 C14".split()
    rounds = {"1 (A,B)": ("AB", None), "2 (C,D)": ("CD", None), "3 (E,F; engine properties)": ("EF", True), "4 (E,F; the other ten)": ("EF", False)}
    lines += ["", "## Summary", "", "| round | seeds kept | caught on first run | caught now |", "|---|---|---|---|"]
    for rn, (letters, eng) in rounds.items():
        ms = [json.load(open(mp)) for mp in sorted(glob.glob(os.path.join(OUT, "C*", "meta.json")))]
        ms = [m for m in ms if m["id"][-1] in letters and (eng is None or (m["breaks_property"] in ENGINE) == eng)]
        def runs_of(m):
            return sorted(m.get("check_runs", []), key=lambda r: r.get("eval_file", ""))
        first = sum(1 for m in ms if runs_of(m) and runs_of(m)[0].get("caught"))
        now = sum(1 for m in ms if runs_of(m) and (runs_of(m)[-1].get("caught") or (NOTES.get(m["id"]) or "").startswith("caught")))
        lines.append("| %s | %d | %d | %d |" % (rn, len(ms), first, now))
    open(os.path.join(OUT, "README.md"), "w").write("\n".join(lines) + "\n")
    print("\n".join(lines[10:]))


def _needs(notes):
    m = re.search(r"(?is)(what it needs to manifest|needs to manifest|to manifest)[^\n]*\n(.*?)(\n#|\Z)", notes)
    txt = m.group(2) if m else notes
    return " ".join(txt.split())[:600]


if __name__ == "__main__":
    main()
