"""./check <id> [--tier quick|thorough] [--replay file]: decide one property on /repo's working tree.

exit 0  the property held on every path inside the stated bounds (known findings are printed)
exit 1  a counterexample was found by the solver AND reproduced on the real code without the
        symbolic layer AND is not listed in known_findings.json:  VIOLATION property=<id> replay=<path>
exit 2  inconclusive (solver unknown, unsupported operation, budget, non-reproducing model,
        vacuous harness, twin that did not fire, self-validation failure)
"""
import sys
import os
import json
import time
import argparse
import importlib
import subprocess

HERE = os.path.dirname(os.path.dirname(os.path.abspath(__file__)))
sys.path.insert(0, HERE)
REPO = os.environ.get("VERIF_REPO", "/repo")
sys.path.insert(0, REPO)
sys.dont_write_bytecode = True

from vf import runner  # noqa: E402


def load_known():
    p = os.path.join(HERE, "known_findings.json")
    if not os.path.exists(p):
        return []
    return json.load(open(p)).get("findings", [])


def _unify(pat, op, env):
    """pattern op like ["$s", "create", "$X"] against a concrete op; $s/$t are opposite sides"""
    if len(pat) != len(op):
        return None
    env = dict(env)
    for p, v in zip(pat, op):
        if isinstance(p, str) and p.startswith("$"):
            if p in ("$s", "$t"):
                other = "$t" if p == "$s" else "$s"
                if p in env and env[p] != v:
                    return None
                if other in env and env[other] == v:
                    return None
                if v not in (0, 1):
                    return None
            elif p in env and env[p] != v:
                return None
            env[p] = v
        elif p != v:
            return None
    return env


def _contains(pats, ops, env=None):
    """every pattern op occurs somewhere in ops (any order), under one consistent variable assignment"""
    env = env or {}
    if not pats:
        return True
    for op in ops:
        e2 = _unify(pats[0], op, env)
        if e2 is not None and _contains(pats[1:], ops, e2):
            return True
    return False


def match_known(known, prop, sig):
    """a finding matches when every key of its 'match' agrees with the signature:
    key            equality;  key_in  membership;  ops_contain  pattern ops all present in sig['ops']"""
    for f in known:
        if f.get("property") != prop or f.get("status") != "known":
            continue
        ok = True
        for k, v in f["match"].items():
            if k == "ops_contain":
                ok = isinstance(sig.get("ops"), list) and _contains(v, sig["ops"])
            elif k == "acts_subseq":
                acts = sig.get("acts") or []
                it = iter(acts)
                ok = all(any(x == want for x in it) for want in v)
            elif k == "ops_contain_any":
                ok = isinstance(sig.get("ops"), list) and any(_contains(alt, sig["ops"]) for alt in v)
            elif k.endswith("_in"):
                ok = sig.get(k[:-3]) in v
            else:
                ok = sig.get(k) == v
            if not ok:
                break
        if ok:
            return f
    return None


def repo_head():
    try:
        return subprocess.run(["git", "-C", REPO, "rev-parse", "--short", "HEAD"], capture_output=True, text=True).stdout.strip()
    except Exception:
        return "?"


def main():
    ap = argparse.ArgumentParser()
    ap.add_argument("prop")
    ap.add_argument("--tier", default=os.environ.get("VERIF_TIER", "quick"))
    ap.add_argument("--replay")
    ap.add_argument("--workers", type=int, default=int(os.environ.get("VERIF_WORKERS", "0")) or None)
    ap.add_argument("--only", help="substring filter on job labels (development)")
    ap.add_argument("--no-evidence", action="store_true")
    a = ap.parse_args()
    prop = a.prop.upper()
    modname = "props." + prop.lower()
    seed = int(os.environ.get("VERIF_SEED", "0") or 0)
    tier = a.tier if a.tier in ("quick", "thorough") else "quick"

    if a.replay:
        req = json.load(open(a.replay))
        res = runner.replay_in_fresh_interpreter(req["module"], req["harness"], req["params"], req["model"])
        print(json.dumps(res, indent=1, default=str))
        if res.get("reproduced"):
            print("VIOLATION property=%s replay=%s" % (req.get("property", prop), a.replay))
            return 1
        print("not reproduced")
        return 0

    t0 = time.time()
    import cloudsync
    if not os.path.abspath(cloudsync.__file__).startswith(os.path.abspath(REPO) + "/"):
        print("INCONCLUSIVE: cloudsync imported from %s, not from %s" % (cloudsync.__file__, REPO))
        return 2
    mod = importlib.import_module(modname)
    known = load_known()
    problems = []          # reasons for inconclusive
    # ---- self-validation of the symbolic layer --------------------------------------
    selftest = None
    stproc = None
    parts = getattr(mod, "SELFTEST_PARTS", ("num", "tok"))
    if parts:
        stproc = subprocess.Popen([runner.PY, "-m", "symx.selftest", ",".join(parts), "2" if tier == "quick" else "3"],
                                  stdout=subprocess.PIPE, stderr=subprocess.STDOUT, text=True, cwd=HERE, env=runner._env())
    jobs = mod.jobs(tier)
    if a.only:
        jobs = [j for j in jobs if a.only in j["label"]]
    budget = getattr(mod, "WALL_BUDGET", {"quick": 600, "thorough": 3600})[tier]
    deadline = t0 + budget
    aggs = runner.run_jobs(modname, jobs, nworkers=a.workers, deadline=deadline)
    explore_wall = time.time() - t0
    if stproc is not None:
        out = stproc.communicate()[0]
        for line in out.splitlines():
            if line.startswith("SELFTEST "):
                selftest = json.loads(line[9:])
        if selftest is None or selftest["failures"]:
            problems.append("symx self-validation failed: %s" % (selftest["failures"][:3] if selftest else out[-500:]))

    violations = []
    known_replayed = {}
    known_hits = []
    replays_done = 0
    twins = []
    per_job = []
    os.makedirs(os.path.join(HERE, "replays"), exist_ok=True)
    for ag in aggs:
        job = ag.job
        role = job.get("role", "main")
        c = ag.counts
        rec = {"label": job["label"], "role": role, "paths": ag.paths, "counts": c, "queries": ag.nq,
               "solver_s": round(ag.tq, 3), "cpu_s": round(ag.cpu, 2), "distinct": len(ag.keys)}
        per_job.append(rec)
        if ag.error:
            problems.append("%s: worker error: %s" % (job["label"], ag.error[-400:]))
            continue
        if ag.unfinished:
            problems.append("%s: path tree not exhausted within the wall budget (%d subtrees left)" % (job["label"], ag.unfinished))
        if c.get("inconclusive"):
            why = [f.get("why") for f in ag.fails if f["status"] == "inconclusive"][:2]
            problems.append("%s: %d inconclusive paths: %s" % (job["label"], c["inconclusive"], why))
        if c.get("ok", 0) + c.get("fail", 0) + c.get("exc", 0) + c.get("budget", 0) < job.get("min_leaves", 1):
            problems.append("%s: vacuous (no feasible path reached the oracle)" % job["label"])
        bad = [f for f in ag.fails if f["status"] in ("fail", "exc", "budget")]
        # group by signature
        groups = {}
        for f in bad:
            sig = f.get("sig")
            if sig is None:
                try:
                    sig = mod.signature(job["harness"], job["params"], f)
                except Exception as e:
                    sig = {"sigerror": repr(e)}
                f["sig"] = sig
            kf0 = match_known(known, prop, sig) if role == "main" else None
            gk = "known:" + kf0["id"] if kf0 else json.dumps(sig, sort_keys=True)
            groups.setdefault(gk, []).append(f)
        if role == "sens":
            fired = False
            for key, fs in list(groups.items())[:3]:
                r = runner.replay_in_fresh_interpreter(modname, job["harness"], job["params"], fs[0].get("model"))
                replays_done += 1
                if r.get("reproduced"):
                    fired = True
                    break
            twins.append({"label": job["label"], "kind": "sensitivity", "fired": fired, "failing_paths": len(bad)})
            if not fired:
                problems.append("%s: sensitivity twin did not produce a replayable counterexample" % job["label"])
            continue
        if role == "reach":
            twins.append({"label": job["label"], "kind": "reachability", "fired": c.get("ok", 0) + c.get("fail", 0) > 0})
        for key, fs in groups.items():
            sig = fs[0]["sig"]
            if key.startswith("known:") and known_replayed.get(key, 0) >= 3:
                # this finding's signature family already reproduced three times in this run: attribute without another replay
                kf = match_known(known, prop, sig)
                known_hits.append({"finding": kf["id"], "what": kf["what"], "sig": sig, "paths": len(fs), "label": job["label"], "replayed": False})
                continue
            if replays_done > 60:
                problems.append("%s: more than 60 distinct failing signatures; not all replayed" % job["label"])
                break
            reproduced = None
            detail = None
            used = None
            for f in fs[:3]:
                r = runner.replay_in_fresh_interpreter(modname, job["harness"], job["params"], f.get("model"),
                                                       timeout=getattr(mod, "REPLAY_TIMEOUT", 300))
                replays_done += 1
                detail = r.get("detail")
                if r.get("reproduced"):
                    reproduced = True
                    used = f
                    if r.get("sig"):
                        sig = r["sig"]
                    break
            if not reproduced:
                problems.append("%s: solver counterexample did not reproduce on the real code: sig=%s detail=%s"
                                % (job["label"], key[:300], str(detail)[:300]))
                continue
            kf = match_known(known, prop, sig)
            if kf:
                known_replayed["known:" + kf["id"]] = known_replayed.get("known:" + kf["id"], 0) + 1
                known_hits.append({"finding": kf["id"], "what": kf["what"], "sig": sig, "paths": len(fs), "label": job["label"], "replayed": True})
            else:
                n = len(violations) + 1
                path = os.path.join(HERE, "replays", "%s-%d.json" % (prop, n))
                json.dump({"property": prop, "module": modname, "harness": job["harness"], "params": job["params"],
                           "model": used.get("model"), "sig": sig, "detail": detail, "info": used.get("info")},
                          open(path, "w"), indent=1, default=str)
                violations.append({"sig": sig, "replay": path, "detail": detail, "label": job["label"], "paths": len(fs)})

    wall = time.time() - t0
    # ---- second solver on exported queries (thorough) ---------------------------------
    e2 = None
    if (tier == "thorough" or os.environ.get("VERIF_E2")) and any(ag.smt for ag in aggs):
        from vf import e2 as e2mod
        e2 = e2mod.recheck([(ag.job["label"],) + tuple(x) for ag in aggs for x in ag.smt])
        if e2["disagreements"]:
            problems.append("second solver disagrees on %d queries" % e2["disagreements"])
        if e2["errors"]:
            problems.append("second solver reported errors on %d exported queries (encoding not accepted): %s" % (e2["errors"], str(e2["details"][:1])[:300]))
    # ---- report ---------------------------------------------------------------------------
    seen_kf = set()
    for k in known_hits:
        if k["finding"] not in seen_kf:
            seen_kf.add(k["finding"])
            print("KNOWN-FINDING: property=%s %s: %s" % (prop, k["finding"], k["what"]))
    for v in violations:
        print("VIOLATION property=%s replay=%s" % (prop, v["replay"]))
        print("   sig=%s" % json.dumps(v["sig"], sort_keys=True)[:400])
        print("   %s" % str(v["detail"])[:600])
    for p in problems:
        print("INCONCLUSIVE: " + p)

    total_paths = sum(ag.paths for ag in aggs)
    main_aggs = [ag for ag in aggs if ag.job.get("role", "main") != "sens"]
    distinct = sum(len(ag.keys) for ag in main_aggs)
    meta = mod.meta(tier) if hasattr(mod, "meta") else {}
    funcs = sorted(set().union(*[ag.funcs for ag in aggs])) if aggs else []
    samples = []
    for ag in aggs:
        for s in ag.samples[:2]:
            samples.append({"job": ag.job["label"], **s})
        if len(samples) >= 8:
            break
    if not samples:
        samples = [{"job": j["label"]} for j in jobs[:2]]
    verdict = "violation" if violations else ("inconclusive" if problems else "holds-within-bounds")
    cov = {
        "explanation": meta.get("explanation", "bounded symbolic execution of the real code; z3 decides every symbolic branch and claim"),
        "verdict": verdict,
        "evaluations": total_paths,
        "distinct_nontrivial": distinct,
        "rule": meta.get("rule", "one evaluation = one path of the symbolic execution tree (a set of inputs sharing all "
                                  "solver-decided branch outcomes); distinct = distinct oracle keys among paths that reached the oracle"),
        "samples": samples,
        "exhaustive": not problems and all(ag.unfinished == 0 for ag in aggs),
        "paths": total_paths,
        "solver_queries": sum(ag.nq for ag in aggs),
        "solver_seconds": round(sum(ag.tq for ag in aggs), 2),
        "cpu_seconds": round(sum(ag.cpu for ag in aggs), 1),
        "claims_discharged": sum(ag.claims for ag in aggs),
        "functions_encoded": funcs,
        "bounds": meta.get("bounds"),
        "symbolic_variables": meta.get("symbolic"),
        "outside_the_claim": meta.get("outside"),
        "stubs": meta.get("stubs"),
        "jobs": per_job,
        "twins": twins,
        "selftest": selftest,
        "second_solver": e2,
        "known_findings_hit": known_hits[:20],
        "violations": violations[:20],
        "inconclusive_reasons": problems[:20],
        "repo_head": repo_head(),
        "solver": "z3 " + __import__("z3").get_version_string(),
    }
    ev = {"property_id": prop, "tier": tier, "seed": seed, "level": getattr(mod, "LEVEL", "other"), "coverage": cov,
          "assumptions": meta.get("assumptions", []), "wall_s": round(wall, 2), "violations": len(violations)}
    try:
        from vf import tmpclean
        tmpclean.sweep_stale()
    except Exception:
        pass
    if not a.no_evidence:
        os.makedirs(os.path.join(HERE, "evidence"), exist_ok=True)
        json.dump(ev, open(os.path.join(HERE, "evidence", prop + ".json"), "w"), indent=1, default=str)
        # the file above is rewritten by every run; a copy per tier keeps the last quick and the last thorough run side by side
        os.makedirs(os.path.join(HERE, "evidence", "by-tier"), exist_ok=True)
        json.dump(ev, open(os.path.join(HERE, "evidence", "by-tier", "%s.%s.json" % (prop, tier)), "w"), indent=1, default=str)
    print("%s %s: %s  paths=%d distinct=%d queries=%d solver=%.1fs cpu=%.0fs wall=%.1fs known=%d" % (
        prop, tier, verdict, total_paths, distinct, cov["solver_queries"], cov["solver_seconds"], cov["cpu_seconds"], wall,
        len(seen_kf)))
    if violations:
        return 1
    if problems:
        return 2
    return 0


if __name__ == "__main__":
    sys.exit(main())
