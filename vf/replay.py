"""concrete replay of a counterexample in a fresh interpreter, without the symbolic layer"""
import sys
import os
import json
import importlib

sys.path.insert(0, os.path.dirname(os.path.dirname(os.path.abspath(__file__))))
sys.path.insert(0, os.environ.get("VERIF_REPO", "/repo"))
sys.dont_write_bytecode = True


def main():
    if len(sys.argv) > 1:
        req = json.load(open(sys.argv[1]))
    else:
        req = json.loads(sys.stdin.read())
    real_out = sys.stdout
    sys.stdout = sys.stderr
    from vf import tmpclean
    tmpclean.install()
    mod = importlib.import_module(req["module"])
    try:
        res = mod.replay(req["harness"], dict(req["params"]), req["model"])
    except BaseException as e:   # a replay that cannot run is "not reproduced", never a violation
        import traceback
        res = {"reproduced": None, "detail": "replay raised: " + traceback.format_exc()[-1500:]}
    sys.stdout = real_out
    print("REPLAY-RESULT " + json.dumps(res, default=str))
    return res


if __name__ == "__main__":
    r = main()
    sys.exit(1 if r.get("reproduced") else 0)
